package vsim

import (
	"errors"
	"fmt"
	"io"
	"time"

	tchannel "github.com/uber/tchannel-go"
	"github.com/uber/tchannel-go/relay"
)

// SpyRelayHost is the application-side RelayHost of a relay node. It routes by
// service name through isolated sub-channel peer lists (like the library's own
// test stub) and logs every RelayCall callback with its event number: the
// observer of C09.
type SpyRelayHost struct {
	w     *World
	name  string
	ch    *tchannel.Channel
	Calls []*SpyCall
	// Appends are key/value pairs appended to arg2 of thrift-scheme calls.
	Appends [][2][]byte
	// StartErr, when set, decides per call whether Start fails (C20: relay-originated errors).
	StartErr func(cf relay.CallFrame) error
	// Downstream names the relay nodes after this one on the path.
	Downstream []string
	// IterCheck: walk arg2 with the key/value iterator (C18) and record pairs.
	IterCheck bool
	// Slow > 0: a slow relay host - one callback in Slow takes 1-4 ticks (metrics emission,
	// a lock in the host's own code), on the relay's connection reader goroutines
	Slow int
}

// SpyCall is the record of one relayed call as the relay host saw it.
type SpyCall struct {
	h        *SpyRelayHost
	id       int
	Service  string
	Method   string
	Caller   string
	TTLms    int64
	peer     *tchannel.Peer
	Events   []string
	EndEv    int64
	Ends     int
	Late     []string
	failed   []string
	IterKV   [][2]string
	IterErr  error
	StartErr error
	returned bool // Start handed a call object back to the library
}

func (h *SpyRelayHost) SetChannel(ch *tchannel.Channel) { h.ch = ch }

// Add routes a service to a host:port.
func (h *SpyRelayHost) Add(service, hostPort string) {
	h.ch.GetSubChannel(service, tchannel.Isolated).Peers().GetOrAdd(hostPort)
}

func (h *SpyRelayHost) Start(cf relay.CallFrame, conn *relay.Conn) (tchannel.RelayCall, error) {
	w := h.w
	c := &SpyCall{h: h, id: len(h.Calls) + 1, Service: string(cf.Service()), Method: string(cf.Method()), Caller: string(cf.Caller()), TTLms: int64(cf.TTL() / 1e6)}
	h.Calls = append(h.Calls, c)
	c.log("start")
	if h.IterCheck {
		it, err := cf.Arg2Iterator()
		for err == nil {
			c.IterKV = append(c.IterKV, [2]string{string(it.Key()), string(it.Value())})
			it, err = it.Next()
		}
		c.IterErr = err
	}
	if h.StartErr != nil {
		if err := h.StartErr(cf); err != nil {
			c.StartErr = err
			c.log("start-error " + err.Error())
			if app(2) == 0 {
				return nil, err // no call object: no End expected
			}
			c.returned = true
			return c, err
		}
	}
	c.returned = true
	if len(h.Appends) > 0 {
		// like a real relay host: only thrift-scheme calls carry key/value arg2
		if it, err := cf.Arg2Iterator(); err == nil || err == io.EOF {
			for _, kv := range h.Appends {
				cf.Arg2Append(kv[0], kv[1])
			}
			// tell the oracles what this relay will emit and the destination must see
			if err == nil && string(it.Key()) == "c" {
				if cmd, _ := parseCmd(append(append([]byte(nil), it.Value()...), '\n')); cmd != nil {
					if rec := w.callTag[cmd["tag"]]; rec != nil {
						if kvs, ok := decodeKV(rec.Req2); ok {
							rec.Req2Dest = encodeKV(append(kvs, h.Appends...))
							if rec.Req2Hop == nil {
								rec.Req2Hop = map[string][]byte{}
							}
							rec.Req2Hop[h.name] = rec.Req2Dest
							for _, o := range h.Downstream {
								rec.Req2Hop[o] = rec.Req2Dest
							}
							rec.Appended = true
						}
					}
				}
			}
		}
	}
	peer, err := h.ch.GetSubChannel(c.Service).Peers().Get(nil)
	if err != nil {
		c.StartErr = err
		c.log("no-peer " + err.Error())
		w.probe("relay.no-peer")
		return c, err
	}
	c.peer = peer
	return c, nil
}

func (c *SpyCall) name() string {
	return fmt.Sprintf("relay %s call#%d (%s::%s from %s)", c.h.name, c.id, c.Service, c.Method, c.Caller)
}

func (c *SpyCall) log(what string) {
	w := c.h.w
	ev := w.event("relaycb", "%s %s", c.name(), what)
	c.Events = append(c.Events, fmt.Sprintf("#%d %s", ev, what))
	w.eval("C09.callback")
	if c.Ends > 0 && what != "end" {
		c.Late = append(c.Late, what)
		w.violate("C09", "callback-after-end", "%s: %s reported after End; callbacks so far: %v", c.name(), what, c.Events)
	}
}

func (c *SpyCall) Destination() (*tchannel.Peer, bool) { return c.peer, c.peer != nil }
func (c *SpyCall) SentBytes(n uint16)                  { c.log(fmt.Sprintf("sent(%d)", n)); c.dawdle() }
func (c *SpyCall) ReceivedBytes(n uint16)              { c.log(fmt.Sprintf("received(%d)", n)); c.dawdle() }
func (c *SpyCall) CallResponse(f relay.RespFrame) {
	c.log(fmt.Sprintf("callres(ok=%v)", f.OK()))
	c.dawdle()
}
func (c *SpyCall) Succeeded() { c.log("succeeded"); c.dawdle() }
func (c *SpyCall) Failed(reason string) {
	c.failed = append(c.failed, reason)
	c.h.w.probe("relay.failed(" + reason + ")")
	c.log("failed(" + reason + ")")
	c.dawdle()
}

func (c *SpyCall) dawdle() {
	if c.h.Slow > 0 && !c.h.w.QuiesceStarted && app(c.h.Slow) == 0 {
		c.h.w.Net.Fired["app.slow-relay-host"]++
		sleep(time.Duration(1+app(4)) * c.h.w.Grid)
	}
}
func (c *SpyCall) End() {
	c.log("end")
	c.Ends++
	if c.Ends == 1 {
		c.EndEv = c.h.w.ev
	} else {
		c.h.w.violate("C09", "end-twice", "%s: End reported %d times; callbacks: %v", c.name(), c.Ends, c.Events)
	}
}

// checkEnded is evaluated at quiescence: every call the host started (and
// returned a call object for) was ended exactly once.
func (h *SpyRelayHost) checkEnded() {
	for _, c := range h.Calls {
		h.w.eval("C09.end-once")
		if !c.returned {
			if c.Ends != 0 {
				h.w.violate("C09", "end-without-call", "%s: End reported although Start returned no call; callbacks: %v", c.name(), c.Events)
			}
			continue
		}
		if c.Ends == 0 {
			h.w.violate("C09", "end-missing", "%s: never ended after quiescence; callbacks: %v", c.name(), c.Events)
		}
	}
}

var errSpy = errors.New("spy")
