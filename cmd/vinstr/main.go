// vinstr rewrites Go packages in a scratch copy so that they run under the
// simrt scheduler (see DESIGN.md 3.2). It never touches /repo: the driver hands
// it a throw-away copy. Exit status 2 = a construct it cannot rewrite soundly.
//
// usage: vinstr -dir <module dir> [-prefix h/] <package patterns...>
package main

import (
	"bytes"
	"flag"
	"fmt"
	"go/ast"
	"go/format"
	"go/token"
	"go/types"
	"os"
	"path/filepath"
	"strings"

	"golang.org/x/tools/go/ast/astutil"
	"golang.org/x/tools/go/packages"
)

const simrtPath = "github.com/uber/tchannel-go/simrt"

var (
	flagDir    = flag.String("dir", ".", "module directory to load packages from")
	flagPrefix = flag.String("prefix", "", "prefix for site names")
	flagQuiet  = flag.Bool("q", false, "no notes")
)

type rewriter struct {
	pkg   *packages.Package
	fset  *token.FileSet
	file  *ast.File
	used  bool
	fname string
	errs  []string
}

func main() {
	flag.Parse()
	dir, _ := filepath.Abs(*flagDir)
	pats := flag.Args()
	cfg := &packages.Config{
		Mode:       packages.NeedName | packages.NeedFiles | packages.NeedSyntax | packages.NeedTypes | packages.NeedTypesInfo | packages.NeedImports | packages.NeedDeps,
		Dir:        dir,
		BuildFlags: []string{"-tags=verif"},
		Env:        append(os.Environ(), "GOFLAGS=-mod=mod", "GOPROXY=off", "GOSUMDB=off", "GOTOOLCHAIN=local"),
	}
	pkgs, err := packages.Load(cfg, pats...)
	if err != nil {
		fmt.Fprintln(os.Stderr, err)
		os.Exit(2)
	}
	bad := false
	for _, p := range pkgs {
		for _, e := range p.Errors {
			fmt.Fprintln(os.Stderr, "load error:", e)
			bad = true
		}
		for i, f := range p.Syntax {
			_ = i
			fn := p.Fset.Position(f.Package).Filename
			if strings.HasSuffix(fn, "_test.go") || strings.Contains(fn, "/simrt/") {
				continue
			}
			rel, err := filepath.Rel(dir, fn)
			if err != nil || strings.HasPrefix(rel, "..") {
				continue // not part of the module being rewritten
			}
			rw := &rewriter{pkg: p, fset: p.Fset, file: f, fname: *flagPrefix + filepath.ToSlash(rel)}
			rw.rewriteFile()
			for _, e := range rw.errs {
				fmt.Fprintln(os.Stderr, "unsupported:", e)
				bad = true
			}
			var buf bytes.Buffer
			if err := format.Node(&buf, p.Fset, f); err != nil {
				fmt.Fprintln(os.Stderr, "format:", fn, err)
				os.Exit(2)
			}
			if err := os.WriteFile(fn, buf.Bytes(), 0644); err != nil {
				panic(err)
			}
		}
	}
	if bad {
		os.Exit(2)
	}
}

func (rw *rewriter) site(n ast.Node) *ast.BasicLit {
	pos := rw.fset.Position(n.Pos())
	return &ast.BasicLit{Kind: token.STRING, Value: fmt.Sprintf("%q", fmt.Sprintf("%s:%d", rw.fname, pos.Line))}
}

func (rw *rewriter) simcall(fn string, args ...ast.Expr) *ast.CallExpr {
	rw.used = true
	return &ast.CallExpr{Fun: &ast.SelectorExpr{X: ast.NewIdent("simrt"), Sel: ast.NewIdent(fn)}, Args: args}
}

func (rw *rewriter) rewriteFile() {
	info := rw.pkg.TypesInfo
	// 1. type / func replacement for sync.* and time.AfterFunc
	syncNames := map[string]bool{"Mutex": true, "RWMutex": true, "Cond": true, "NewCond": true, "Pool": true, "WaitGroup": true, "Once": true}
	astutil.Apply(rw.file, func(c *astutil.Cursor) bool {
		se, ok := c.Node().(*ast.SelectorExpr)
		if !ok {
			return true
		}
		id, ok := se.X.(*ast.Ident)
		if !ok {
			return true
		}
		pn, ok := info.Uses[id].(*types.PkgName)
		if !ok {
			return true
		}
		switch pn.Imported().Path() {
		case "sync":
			if syncNames[se.Sel.Name] {
				id.Name = "simrt"
				rw.used = true
			} else if se.Sel.Name != "Locker" {
				rw.errs = append(rw.errs, fmt.Sprintf("%s: sync.%s", rw.fset.Position(se.Pos()), se.Sel.Name))
			}
		case "time":
			if se.Sel.Name == "AfterFunc" {
				id.Name = "simrt"
				rw.used = true
				if *flagPrefix != "" {
					// harness timers (socket deadlines of raw peers and the like) are not
					// instants worth aiming stalls at
					se.Sel.Name = "AfterFuncQuiet"
				}
			}
		}
		return true
	}, nil)

	// (*time.Timer).Reset -> simrt.TimerReset: the new expiry becomes a registered instant
	// (targeted stalls can then land a goroutine just past a timer that is re-armed, not
	// only one that is created)
	astutil.Apply(rw.file, func(c *astutil.Cursor) bool {
		ce, ok := c.Node().(*ast.CallExpr)
		if !ok || len(ce.Args) != 1 {
			return true
		}
		se, ok := ce.Fun.(*ast.SelectorExpr)
		if !ok || se.Sel.Name != "Reset" {
			return true
		}
		t := info.TypeOf(se.X)
		if t == nil || t.String() != "*time.Timer" {
			return true
		}
		c.Replace(rw.simcall("TimerReset", se.X, ce.Args[0]))
		return true
	}, nil)

	// R7: trand.NewSeeded draws its seed from the run's decision stream.
	if rw.pkg.PkgPath == "github.com/uber/tchannel-go/trand" {
		for _, d := range rw.file.Decls {
			if fd, ok := d.(*ast.FuncDecl); ok && fd.Recv == nil && fd.Name.Name == "NewSeeded" {
				fd.Body.List = []ast.Stmt{&ast.ReturnStmt{Results: []ast.Expr{&ast.CallExpr{Fun: ast.NewIdent("New"), Args: []ast.Expr{rw.simcall("LibSeed")}}}}}
			}
		}
	}

	// 2. statement-level rewriting in every statement list.
	astutil.Apply(rw.file, nil, func(c *astutil.Cursor) bool {
		switch n := c.Node().(type) {
		case *ast.BlockStmt:
			n.List = rw.rewriteList(n.List)
		case *ast.CaseClause:
			n.Body = rw.rewriteList(n.Body)
		case *ast.CommClause:
			n.Body = rw.rewriteList(n.Body)
			if n.Comm != nil { // not default
				n.Body = append([]ast.Stmt{&ast.ExprStmt{X: rw.simcall("Resume")}}, n.Body...)
			}
		}
		return true
	})

	if rw.used {
		astutil.AddImport(rw.fset, rw.file, simrtPath)
	}
	for _, imp := range []string{"sync", "time"} {
		if !astutil.UsesImport(rw.file, imp) {
			astutil.DeleteImport(rw.fset, rw.file, imp)
		}
	}
}

// opFlags describes what a statement's own expressions (excluding nested blocks and func literals) do.
type opFlags struct{ sync, blocking, retRecv bool }

func (rw *rewriter) flagsOfExprs(nodes ...ast.Node) opFlags {
	var fl opFlags
	info := rw.pkg.TypesInfo
	for _, n := range nodes {
		if n == nil || (isNilNode(n)) {
			continue
		}
		ast.Inspect(n, func(x ast.Node) bool {
			switch e := x.(type) {
			case *ast.FuncLit:
				return false
			case *ast.UnaryExpr:
				if e.Op == token.ARROW {
					fl.sync, fl.blocking = true, true
				}
			case *ast.CallExpr:
				if id, ok := e.Fun.(*ast.Ident); ok && id.Name == "close" {
					if _, isB := info.Uses[id].(*types.Builtin); isB {
						fl.sync = true
					}
				}
				if se, ok := e.Fun.(*ast.SelectorExpr); ok {
					if sel := info.Selections[se]; sel != nil {
						if fn, ok := sel.Obj().(*types.Func); ok && fn.Pkg() != nil {
							switch fn.Pkg().Path() {
							case "go.uber.org/atomic", "sync/atomic":
								fl.sync = true
							case "sync":
								// Lock/Unlock/Wait/... on a (soon to be simrt) primitive:
								// a precise site in front of the primitive's own scheduling point
								fl.sync = true
							}
						}
					} else if id, ok := se.X.(*ast.Ident); ok {
						if pn, ok := info.Uses[id].(*types.PkgName); ok {
							if pn.Imported().Path() == "time" && se.Sel.Name == "Sleep" {
								fl.sync, fl.blocking = true, true
							}
							if pn.Imported().Path() == "sync/atomic" {
								fl.sync = true
							}
						}
					}
				}
			}
			return true
		})
	}
	return fl
}

func isNilNode(n ast.Node) bool {
	switch v := n.(type) {
	case ast.Expr:
		return v == nil
	case ast.Stmt:
		return v == nil
	}
	return false
}

func (rw *rewriter) rewriteList(list []ast.Stmt) []ast.Stmt {
	var out []ast.Stmt
	for _, st := range list {
		out = append(out, rw.rewriteStmt(st)...)
	}
	return out
}

func (rw *rewriter) yield(n ast.Node) ast.Stmt {
	return &ast.ExprStmt{X: rw.simcall("Yield", rw.site(n))}
}
func (rw *rewriter) resume() ast.Stmt { return &ast.ExprStmt{X: rw.simcall("Resume")} }

func (rw *rewriter) rewriteStmt(st ast.Stmt) []ast.Stmt {
	switch s := st.(type) {
	case *ast.GoStmt:
		return []ast.Stmt{rw.rewriteGo(s)}
	case *ast.SendStmt:
		return []ast.Stmt{rw.yield(s), s, rw.resume()}
	case *ast.ExprStmt, *ast.AssignStmt, *ast.IncDecStmt, *ast.DeclStmt:
		fl := rw.flagsOfExprs(s)
		var out []ast.Stmt
		if fl.sync {
			out = append(out, rw.yield(s))
		}
		out = append(out, s)
		if fl.blocking {
			out = append(out, rw.resume())
		}
		return out
	case *ast.ReturnStmt:
		fl := rw.flagsOfExprs(s)
		if fl.blocking {
			rw.errs = append(rw.errs, fmt.Sprintf("%s: blocking op in return", rw.fset.Position(s.Pos())))
		}
		if fl.sync {
			return []ast.Stmt{rw.yield(s), s}
		}
		return []ast.Stmt{s}
	case *ast.IfStmt:
		var initN, condN ast.Node
		if s.Init != nil {
			initN = s.Init
		}
		if s.Cond != nil {
			condN = s.Cond
		}
		fl := rw.flagsOfExprs(initN, condN)
		if fl.blocking {
			rw.errs = append(rw.errs, fmt.Sprintf("%s: blocking op in if header", rw.fset.Position(s.Pos())))
		}
		if fl.sync {
			return []ast.Stmt{rw.yield(s), s}
		}
		return []ast.Stmt{s}
	case *ast.SwitchStmt:
		var a, b ast.Node
		if s.Init != nil {
			a = s.Init
		}
		if s.Tag != nil {
			b = s.Tag
		}
		fl := rw.flagsOfExprs(a, b)
		if fl.blocking {
			rw.errs = append(rw.errs, fmt.Sprintf("%s: blocking op in switch header", rw.fset.Position(s.Pos())))
		}
		if fl.sync {
			return []ast.Stmt{rw.yield(s), s}
		}
		return []ast.Stmt{s}
	case *ast.SelectStmt:
		return []ast.Stmt{rw.yield(s), s}
	case *ast.ForStmt:
		var a, b, c ast.Node
		if s.Init != nil {
			a = s.Init
		}
		if s.Cond != nil {
			b = s.Cond
		}
		if s.Post != nil {
			c = s.Post
		}
		fl := rw.flagsOfExprs(a, b, c)
		if fl.blocking {
			rw.errs = append(rw.errs, fmt.Sprintf("%s: blocking op in for header", rw.fset.Position(s.Pos())))
		}
		if fl.sync {
			// yield at top of each iteration
			s.Body.List = append([]ast.Stmt{rw.yield(s)}, s.Body.List...)
		}
		return []ast.Stmt{s}
	case *ast.RangeStmt:
		return rw.rewriteRange(s)
	case *ast.LabeledStmt:
		inner := rw.rewriteStmt(s.Stmt)
		if len(inner) == 1 {
			s.Stmt = inner[0]
			return []ast.Stmt{s}
		}
		// put pre-statements before the label, keep the labeled one last-but-post
		var out []ast.Stmt
		idx := -1
		for i, x := range inner {
			if x == s.Stmt {
				idx = i
			}
		}
		if idx < 0 {
			rw.errs = append(rw.errs, fmt.Sprintf("%s: labeled statement rewrite", rw.fset.Position(s.Pos())))
			return []ast.Stmt{s}
		}
		out = append(out, inner[:idx]...)
		out = append(out, s)
		out = append(out, inner[idx+1:]...)
		return out
	}
	return []ast.Stmt{st}
}

func (rw *rewriter) rewriteGo(s *ast.GoStmt) ast.Stmt {
	call := s.Call
	if fl, ok := call.Fun.(*ast.FuncLit); ok && len(call.Args) == 0 {
		return &ast.ExprStmt{X: rw.simcall("Go", rw.site(s), fl)}
	}
	// evaluate function value and args now
	var lhs []ast.Expr
	var rhs []ast.Expr
	fid := ast.NewIdent("_simf")
	lhs = append(lhs, fid)
	rhs = append(rhs, call.Fun)
	var args []ast.Expr
	for i, a := range call.Args {
		id := ast.NewIdent(fmt.Sprintf("_sima%d", i))
		lhs = append(lhs, id)
		rhs = append(rhs, a)
		args = append(args, id)
	}
	if call.Ellipsis.IsValid() {
		rw.errs = append(rw.errs, fmt.Sprintf("%s: go with ellipsis", rw.fset.Position(s.Pos())))
	}
	assign := &ast.AssignStmt{Lhs: lhs, Tok: token.DEFINE, Rhs: rhs}
	body := &ast.BlockStmt{List: []ast.Stmt{&ast.ExprStmt{X: &ast.CallExpr{Fun: fid, Args: args}}}}
	lit := &ast.FuncLit{Type: &ast.FuncType{Params: &ast.FieldList{}}, Body: body}
	return &ast.BlockStmt{List: []ast.Stmt{assign, &ast.ExprStmt{X: rw.simcall("Go", rw.site(s), lit)}}}
}

func orderedKey(t types.Type) bool {
	b, ok := t.Underlying().(*types.Basic)
	if !ok {
		return false
	}
	switch b.Kind() {
	case types.String, types.Uint32, types.Int, types.Uint64, types.Int64, types.Uint16, types.Int32:
		return true
	}
	return false
}

// library map ranges iterate a run-decided permutation; harness ones stay sorted
func rangeKeysFn() string {
	if *flagPrefix != "" {
		return "SortedKeys"
	}
	return "RangeKeys"
}

func (rw *rewriter) rewriteRange(s *ast.RangeStmt) []ast.Stmt {
	t := rw.pkg.TypesInfo.TypeOf(s.X)
	if t == nil {
		return []ast.Stmt{s}
	}
	switch u := t.Underlying().(type) {
	case *types.Chan:
		s.Body.List = append([]ast.Stmt{rw.resume()}, s.Body.List...)
		return []ast.Stmt{rw.yield(s), s, rw.resume()}
	case *types.Map:
		if !orderedKey(u.Key()) {
			if !*flagQuiet {
				fmt.Fprintf(os.Stderr, "note: %s: map range over non-ordered key left as is\n", rw.fset.Position(s.Pos()))
			}
			return []ast.Stmt{s}
		}
		m := ast.NewIdent("_simm")
		pre := &ast.AssignStmt{Lhs: []ast.Expr{m}, Tok: token.DEFINE, Rhs: []ast.Expr{s.X}}
		var keyExpr ast.Expr = ast.NewIdent("_simk")
		keyIsBlank := s.Key == nil
		if id, ok := s.Key.(*ast.Ident); ok && id.Name == "_" {
			keyIsBlank = true
		}
		tok := s.Tok
		if tok == token.ILLEGAL {
			tok = token.DEFINE
		}
		var bodyPre []ast.Stmt
		ks := ast.NewIdent("_simk")
		if !keyIsBlank {
			if tok == token.DEFINE {
				keyExpr = s.Key
				ks = s.Key.(*ast.Ident)
			} else {
				bodyPre = append(bodyPre, &ast.AssignStmt{Lhs: []ast.Expr{s.Key}, Tok: token.ASSIGN, Rhs: []ast.Expr{ast.NewIdent("_simk")}})
			}
		}
		_ = keyExpr
		valIsBlank := s.Value == nil
		if id, ok := s.Value.(*ast.Ident); ok && id.Name == "_" {
			valIsBlank = true
		}
		idx := &ast.IndexExpr{X: m, Index: ks}
		okId := ast.NewIdent("_simok")
		var vLhs ast.Expr = ast.NewIdent("_")
		vtok := token.DEFINE
		if !valIsBlank {
			vLhs = s.Value
			if tok != token.DEFINE {
				// need: var _simok bool; v, _simok = m[k]
				bodyPre = append(bodyPre, &ast.DeclStmt{Decl: &ast.GenDecl{Tok: token.VAR, Specs: []ast.Spec{&ast.ValueSpec{Names: []*ast.Ident{okId}, Type: ast.NewIdent("bool")}}}})
				vtok = token.ASSIGN
			}
		}
		bodyPre = append(bodyPre, &ast.AssignStmt{Lhs: []ast.Expr{vLhs, okId}, Tok: vtok, Rhs: []ast.Expr{idx}})
		bodyPre = append(bodyPre, &ast.IfStmt{Cond: &ast.UnaryExpr{Op: token.NOT, X: okId}, Body: &ast.BlockStmt{List: []ast.Stmt{&ast.BranchStmt{Tok: token.CONTINUE}}}})
		newRange := &ast.RangeStmt{
			Key: ast.NewIdent("_"), Value: ks, Tok: token.DEFINE,
			X:    rw.simcall(rangeKeysFn(), m),
			Body: &ast.BlockStmt{List: append(bodyPre, s.Body.List...)},
		}
		return []ast.Stmt{&ast.BlockStmt{List: []ast.Stmt{pre, newRange}}}
	}
	return []ast.Stmt{s}
}
