#!/bin/bash
# sweep.sh <tier> <seed-from> <seed-to> [props...]  - runs checks for a range of VERIF_SEED values, reports anything that is not a clean pass
TIER="$1"; A="$2"; B="$3"; shift 3
PROPS="${@:-C01 C02 C03 C04 C05 C06 C07 C08 C09 C10 C11 C12 C13 C14 C15 C16 C17 C18 C19 C20}"
cd /verif
for s in $(seq $A $B); do
  for p in $PROPS; do
    out=$(VERIF_SEED=$s ./check $p $TIER 2>&1); rc=$?
    if [ $rc -ne 0 ] || echo "$out" | grep -q "^VIOLATION"; then
      echo "=== seed=$s prop=$p rc=$rc"; echo "$out" | grep -v "^vcheck: property" | cut -c1-500 | head -12
    fi
  done
  echo "seed $s done: $(date +%H:%M:%S)"
done
