package vsim

import (
	"context"
	"fmt"
	"strings"
	"time"

	tchannel "github.com/uber/tchannel-go"
	"vsim/wire"
)

func init() { families["handshake"] = famHandshake }

// The handshake space is finite and is enumerated completely (C13):
//
//	inbound  (raw client opens against a real server)
//	  A: init req x version{0,1,2,3,65535} x id{1,0,0xfffffffe} x params{both,no host_port,no process_name,none}
//	     x host_port{ephemeral,real,present but empty} x cut{whole, 8 bytes, mid-payload (stream cut short),
//	       well-framed short frame after the count, well-framed short frame inside the params,
//	       well-framed frame ending on a pair boundary with the last pair missing (count unchanged),
//	       all pairs present but a count of 65535}                                        = 1260
//	  B: first frame of another type (11 types) x cut{whole,8 bytes}                         = 22
//	  C: silence past the deadline                                                            = 1
//	outbound (real client connects to a raw server)
//	  D: reply init res x version(5) x id{echo,wrong} x params(4) x host_port(3) x cut(7)    = 840
//	  E: reply of another type (6 types) x id{echo,wrong}                                    = 12
//	  F: silence                                                                             = 1
//
// each as one short simulated run with drawn segmentation and latency.
var (
	hsVersions = []uint16{0, 1, 2, 3, 0xffff}
	hsIDs      = []uint32{1, 0, 0xfffffffe}
	hsOtherIn  = []byte{wire.TInitRes, wire.TCallReq, wire.TCallRes, wire.TCallReqCont, wire.TCallResCont, wire.TCancel, wire.TClaim, wire.TPingReq, wire.TPingRes, wire.TError, 0x55}
	hsOtherOut = []byte{wire.TInitReq, wire.TCallRes, wire.TError, wire.TPingRes, wire.TCallReq, 0x55}
)

const (
	hsA = 5 * 3 * 4 * 3 * 7
	hsB = 11 * 2
	hsC = 1
	hsD = 5 * 2 * 4 * 3 * 7
	hsE = 6 * 2
	hsF = 1
)

func hsParams(sel int, hostPort, proc string) []wire.KV {
	all := stdInitParams(hostPort, proc)
	var out []wire.KV
	for _, kv := range all {
		if kv.K == "host_port" && (sel == 1 || sel == 3) {
			continue
		}
		if kv.K == "process_name" && (sel == 2 || sel == 3) {
			continue
		}
		out = append(out, kv)
	}
	return out
}

func hsCut(b []byte, cut int) ([]byte, bool) {
	switch cut {
	case 3, 4:
		// a WELL-FRAMED short message: the header declares exactly the bytes sent, but
		// the message needs more (decoding must not look past the declared size)
		n := wire.HeaderSize + 4 // version and the parameter count, no parameters
		if cut == 4 && len(b) > wire.HeaderSize+12 {
			n = wire.HeaderSize + 4 + (len(b)-wire.HeaderSize-4)/2 // inside the parameters
		}
		if n >= len(b) {
			return b, false
		}
		o := append([]byte(nil), b[:n]...)
		o[0], o[1] = byte(n>>8), byte(n)
		return o, true
	case 5, 6:
		// a WELL-FRAMED message whose parameter count promises more pairs than it
		// carries, ending exactly on a pair boundary: 5 = the last pair is missing,
		// 6 = every pair is there and the count says 65535
		if len(b) < wire.HeaderSize+4 {
			return b, false
		}
		np := int(b[wire.HeaderSize+2])<<8 | int(b[wire.HeaderSize+3])
		if cut == 6 {
			o := append([]byte(nil), b...)
			o[wire.HeaderSize+2], o[wire.HeaderSize+3] = 0xff, 0xff
			return o, true
		}
		if np == 0 {
			return b, false
		}
		off, last := wire.HeaderSize+4, 0
		for i := 0; i < np; i++ {
			last = off
			for j := 0; j < 2; j++ {
				off += 2 + (int(b[off])<<8 | int(b[off+1]))
			}
		}
		o := append([]byte(nil), b[:last]...)
		o[0], o[1] = byte(last>>8), byte(last)
		return o, true
	case 1:
		return b[:8], true
	case 2:
		if len(b) > wire.HeaderSize+2 {
			return b[:wire.HeaderSize+(len(b)-wire.HeaderSize)/2], true
		}
	}
	return b, false
}

func otherFrame(t byte, id uint32) []byte {
	switch t {
	case wire.TCallReq:
		return wire.EncCall(wire.CallSpec{Type: wire.TCallReq, ID: id, TTL: 1000, Service: "svc0", Args: [3][]byte{[]byte("echo"), nil, nil}})[0]
	case wire.TCallRes:
		return wire.EncCall(wire.CallSpec{Type: wire.TCallRes, ID: id, Args: [3][]byte{nil, nil, nil}})[0]
	case wire.TError:
		return wire.EncError(id, wire.ErrBusy, wire.Span{}, "busy")
	case wire.TCancel:
		return wire.EncCancel(id, 10, wire.Span{}, "why")
	case wire.TInitReq, wire.TInitRes:
		return wire.EncInit(t, id, 2, stdInitParams("0.0.0.0:0", "raw"))
	case wire.TCallReqCont, wire.TCallResCont:
		o := wire.EncPing(t, id)
		o = append(o, 0, 0, 0, 0) // flags, checksum type none, one empty chunk
		o[0], o[1] = 0, byte(len(o))
		return o
	}
	return wire.EncPing(t, id)
}

func famHandshake(w *World) {
	w.Grid = time.Millisecond
	w.NoFault = true
	total := hsA + hsB + hsC + hsD + hsE + hsF
	if w.cfg.Case == -2 {
		w.Probes["enum.cases"] = total
		return
	}
	c := w.cfg.Case
	if c < 0 {
		c = scn(total)
	}
	w.drawSchedule(false)
	w.linkDefaults()
	// frames are reused without clearing, like a real pool: a decoder that looks past the
	// declared frame size sees the bytes of an earlier message
	srv := w.addNode(NodeOpts{Name: "s0", Service: "svc0", Host: "10.0.2.1", Port: 5000, Conn: w.connOptsBig(), PoolReuse: true})
	srv.Ch.Register(&echoHandler{w: w, n: srv}, "echo")
	w.probe("ops.done")
	switch {
	case c < hsA+hsB+hsC:
		w.hsInbound(srv, c)
	default:
		w.hsOutbound(c - (hsA + hsB + hsC))
	}
	w.quiesce(8*time.Second, true)
}

func connCount(n *Node) (conns int, peerConns int, peers []string) {
	st := n.Ch.IntrospectState(&tchannel.IntrospectionOptions{})
	conns = st.NumConnections
	for _, hp := range sortedKeys(st.RootPeers) {
		p := st.RootPeers[hp]
		k := len(p.InboundConnections) + len(p.OutboundConnections)
		peerConns += k
		if k > 0 {
			peers = append(peers, hp)
		}
	}
	return
}

func (w *World) hsInbound(srv *Node, c int) {
	rp := w.newRawPeer("raw0", "10.0.9.1")
	rc, err := rp.Dial(srv.HostPort)
	if err != nil {
		panic("harness: dial: " + err.Error())
	}
	var frame []byte
	var desc string
	wantAccept := false
	ephemeral := false
	truncated := false
	silent := false
	switch {
	case c < hsA:
		x := c
		cut := x % 7
		x /= 7
		hp := x % 3
		x /= 3
		ps := x % 4
		x /= 4
		id := hsIDs[x%3]
		x /= 3
		ver := hsVersions[x]
		hostPort := "0.0.0.0:0"
		if hp == 1 {
			hostPort = "10.0.9.1:7000"
		} else if hp == 2 {
			hostPort = "" // the header is there, its value is empty: an ephemeral peer as well
		}
		ephemeral = hp != 1
		frame = wire.EncInit(wire.TInitReq, id, ver, hsParams(ps, hostPort, "rawproc"))
		frame, truncated = hsCut(frame, cut)
		wantAccept = ver >= 2 && ps == 0 && !truncated
		desc = fmt.Sprintf("inbound init req version=%d id=%d params=%d host_port=%s cut=%d", ver, id, ps, hostPort, cut)
	case c < hsA+hsB:
		x := c - hsA
		cut := x % 2
		t := hsOtherIn[x/2]
		frame = otherFrame(t, 1)
		frame, truncated = hsCut(frame, cut)
		desc = fmt.Sprintf("inbound first frame %s cut=%d", wire.TypeName(t), cut)
	default:
		silent = true
		desc = "inbound silence past the handshake deadline"
	}
	w.describe("%s => expect accept=%v", desc, wantAccept)
	w.eval("C13.case")
	if !silent {
		rc.Send(frame)
	}
	// observe what comes back until the socket ends (or 12 s of simulated time)
	var first *wire.Frame
	sawErrFrame := false
	eof := false
	deadline := time.Now().Add(12 * time.Second)
	for time.Now().Before(deadline) {
		f, err := rc.ReadFrame(time.Until(deadline))
		if err != nil {
			if ne, ok := err.(*netError); !ok || !ne.timeout {
				eof = true
			}
			break
		}
		if first == nil {
			first = f
		}
		if f.Type == wire.TError {
			sawErrFrame = true
		}
		if wantAccept && first.Type == wire.TInitRes {
			break
		}
	}
	conns, peerConns, peers := connCount(srv)
	if wantAccept {
		if first == nil || first.Type != wire.TInitRes {
			w.violate("C13", "valid-handshake-rejected", "%s: expected an init res, got %v (eof=%v)", desc, first, eof)
			return
		}
		if first.Version != 2 || first.ID != wire.FrameID(frame) {
			w.violate("C13", "bad-init-res", "%s: init res %s does not echo id/version 2", desc, first)
		}
		has := map[string]bool{}
		for _, kv := range first.Params {
			has[kv.K] = true
		}
		if !has["host_port"] || !has["process_name"] {
			w.violate("C13", "bad-init-res", "%s: init res lacks host_port/process_name: %v", desc, first.Params)
		}
		// the reply is written before the connection is registered: give it (simulated) time
		for i := 0; i < 100 && (conns != 1 || peerConns != 1); i++ {
			sleep(10 * time.Millisecond)
			conns, peerConns, peers = connCount(srv)
		}
		if conns != 1 || peerConns != 1 {
			w.violate("C13", "accepted-connection-not-registered", "%s: 1s after a valid handshake the server tracks %d connections, %d peer connections", desc, conns, peerConns)
		}
		wantPeer := "10.0.9.1:7000"
		if ephemeral {
			wantPeer = rc.c.LocalAddr().String() // identified by its socket address
		}
		if len(peers) != 1 || peers[0] != wantPeer {
			w.violate("C13", "peer-identity", "%s: connection registered under peers %v, want %s", desc, peers, wantPeer)
		}
		// the connection is usable, and reports the remote peer as (non-)ephemeral
		st := srv.Ch.IntrospectState(&tchannel.IntrospectionOptions{})
		for _, hp := range sortedKeys(st.RootPeers) {
			for _, cs := range st.RootPeers[hp].InboundConnections {
				if cs.RemotePeer.IsEphemeral != ephemeral {
					w.violate("C13", "ephemeral-flag", "%s: remote peer %s IsEphemeral=%v, want %v", desc, cs.RemotePeer.HostPort, cs.RemotePeer.IsEphemeral, ephemeral)
				}
			}
		}
		spec, want2, want3 := rawEchoRequest(w, srv.Service, "hs", 10, 100, wire.CsumCRC32, 3000)
		if res := rc.Call(spec, 3*time.Second); res.Err != nil || res.ErrCode >= 0 || string(res.Args[1]) != string(want2) || string(res.Args[2]) != string(want3) {
			w.violate("C13", "accepted-connection-unusable", "%s: call on the activated connection failed: %v code=%d %s", desc, res.Err, res.ErrCode, res.ErrMsg)
		}
		rc.c.Close()
		return
	}
	// must be rejected
	if first != nil && first.Type == wire.TInitRes {
		w.violate("C13", "invalid-handshake-accepted", "%s: the server answered with %s", desc, first)
	}
	if conns != 0 || peerConns != 0 {
		w.violate("C13", "rejected-connection-registered", "%s: the server tracks %d connections / %d peer connections after an invalid opening", desc, conns, peerConns)
	}
	if !eof {
		w.violate("C13", "socket-not-closed", "%s: 12s later the server has not closed the socket (error frame seen: %v)", desc, sawErrFrame)
	}
	if !sawErrFrame {
		w.probe("C13.rejected-without-error-frame")
	}
	rc.c.Close()
	// the channel keeps accepting
	rp2 := w.newRawPeer("raw1", "10.0.9.2")
	if c2, err := rp2.Dial(srv.HostPort); err != nil {
		w.violate("C13", "stops-accepting", "%s: afterwards a new connection is refused: %v", desc, err)
	} else if err := c2.Handshake(); err != nil {
		w.violate("C13", "stops-accepting", "%s: afterwards a correct handshake fails: %v", desc, err)
	} else {
		c2.c.Close()
	}
}

func (w *World) hsOutbound(c int) {
	cli := w.addNode(NodeOpts{Name: "c0", Service: "client0", Host: "10.0.3.1", Conn: w.connOptsBig(), PoolReuse: true})
	rs := w.newRawPeer("rawsrv", "10.0.8.1")
	var desc string
	wantAccept := false
	ephemeral := false
	var reply func(req *wire.Frame) []byte
	silent := false
	switch {
	case c < hsD:
		x := c
		cut := x % 7
		x /= 7
		hp := x % 3
		x /= 3
		ps := x % 4
		x /= 4
		wrongID := x%2 == 1
		x /= 2
		ver := hsVersions[x]
		hostPort := "0.0.0.0:0"
		if hp == 1 {
			hostPort = "10.0.8.1:6000"
		} else if hp == 2 {
			hostPort = ""
		}
		ephemeral = hp != 1
		trunc := cut != 0
		wantAccept = ver == 2 && !wrongID && ps == 0 && !trunc
		desc = fmt.Sprintf("outbound init res version=%d wrongid=%v params=%d host_port=%s cut=%d", ver, wrongID, ps, hostPort, cut)
		reply = func(req *wire.Frame) []byte {
			id := req.ID
			if wrongID {
				id += 7
			}
			b, _ := hsCut(wire.EncInit(wire.TInitRes, id, ver, hsParams(ps, hostPort, "rawproc")), cut)
			return b
		}
	case c < hsD+hsE:
		x := c - hsD
		wrongID := x%2 == 1
		t := hsOtherOut[x/2]
		desc = fmt.Sprintf("outbound reply %s wrongid=%v", wire.TypeName(t), wrongID)
		reply = func(req *wire.Frame) []byte {
			id := req.ID
			if wrongID {
				id += 7
			}
			return otherFrame(t, id)
		}
	default:
		silent = true
		desc = "outbound: peer never answers"
	}
	w.describe("%s => expect accept=%v", desc, wantAccept)
	w.eval("C13.case")
	sockEnded := false
	var gotReq *wire.Frame
	hp := rs.Listen(6000, func(rc *RawConn) {
		f, err := rc.ReadFrame(10 * time.Second)
		if err != nil {
			return
		}
		gotReq = f
		if !silent {
			rc.Send(reply(f))
		}
		for {
			if _, err := rc.ReadFrame(15 * time.Second); err != nil {
				if ne, ok := err.(*netError); !ok || !ne.timeout {
					sockEnded = true
				}
				return
			}
		}
	})
	ctx, cancel := context.WithTimeout(context.Background(), 2*time.Second)
	defer cancel()
	t0 := time.Now()
	conn, err := cli.Ch.Connect(ctx, hp)
	took := time.Since(t0)
	conns, peerConns, peers := connCount(cli)
	if gotReq == nil || gotReq.Type != wire.TInitReq || gotReq.Version != 2 {
		w.violate("C13", "bad-init-req", "%s: the client opened with %v", desc, gotReq)
	}
	if wantAccept {
		if err != nil || conn == nil {
			w.violate("C13", "valid-handshake-rejected", "%s: Connect failed: %v", desc, err)
			return
		}
		if conns != 1 || peerConns < 1 {
			w.violate("C13", "accepted-connection-not-registered", "%s: client tracks %d connections / %d peer connections", desc, conns, peerConns)
		}
		if pi := conn.RemotePeerInfo(); pi.IsEphemeral != ephemeral {
			w.violate("C13", "ephemeral-flag", "%s: remote peer %s IsEphemeral=%v, want %v", desc, pi.HostPort, pi.IsEphemeral, ephemeral)
		} else if ephemeral && pi.HostPort != hp {
			w.violate("C13", "peer-identity", "%s: ephemeral peer identified as %s, want its socket address %s", desc, pi.HostPort, hp)
		}
		_ = peers
		return
	}
	if err == nil {
		w.violate("C13", "invalid-handshake-accepted", "%s: Connect succeeded", desc)
		return
	}
	if took > 2*time.Second+10*w.Grid {
		w.violate("C13", "connect-overran-deadline", "%s: Connect returned after %v with a 2s deadline", desc, took)
	}
	if conns != 0 || peerConns != 0 {
		w.violate("C13", "rejected-connection-registered", "%s: client tracks %d connections / %d peer connections after a failed handshake (%v)", desc, conns, peerConns, peers)
	}
	sleep(3 * time.Second)
	if !sockEnded {
		w.violate("C13", "socket-not-closed", "%s: the client did not close the socket after the failed handshake (err=%v)", desc, strings.TrimSpace(err.Error()))
	}
}
