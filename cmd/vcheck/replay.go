package main

import (
	"encoding/json"
	"fmt"
	"os"
	"path/filepath"
	"sort"
	"strings"
	"time"
)

// ReplayFile is what a violation is reported as.
type ReplayFile struct {
	Property    string         `json:"property"`
	Rule        string         `json:"rule"`
	Detail      string         `json:"detail"`
	Seed        uint64         `json:"seed"`
	Family      string         `json:"family"`
	Minimised   bool           `json:"minimised"`
	Decisions   map[string]int `json:"decisions_per_stream"`
	NonZero     map[string]int `json:"nonzero_decisions_per_stream"`
	Original    map[string]int `json:"original_decisions_per_stream,omitempty"`
	Spec        RunSpec        `json:"spec"` // includes the full decision vectors (flattened (arity, chosen) pairs per stream)
	Scenario    []string       `json:"scenario"`
	History     []string       `json:"history_tail"`
	Trace       []string       `json:"trace_tail,omitempty"`
	HowToReplay string         `json:"how_to_replay"`
}

func countDecisions(rec map[string][]uint32) (map[string]int, map[string]int) {
	n, nz := map[string]int{}, map[string]int{}
	for k, v := range rec {
		n[k] = len(v) / 2
		for i := 1; i < len(v); i += 2 {
			if v[i] != 0 {
				nz[k]++
			}
		}
	}
	return n, nz
}

func cloneRec(rec map[string][]uint32) map[string][]uint32 {
	out := map[string][]uint32{}
	for k, v := range rec {
		out[k] = append([]uint32(nil), v...)
	}
	return out
}

// reportViolation minimises (time-boxed), verifies by strict replay in a fresh
// process and writes the replay file. ok=false means even the unminimised
// decision vector did not reproduce the violation.
func reportViolation(bin, prop string, f found, tier string, noMin bool, workers int) (string, bool) {
	base := f.res.spec
	rec := f.res.Records
	if rec == nil {
		// e.g. the process crashed: obtain the vectors by re-running from the seed
		rr := base
		rr.Record = true
		r2 := runSpec(bin, rr, 3_000_000)
		rec = r2.Records
	}
	strict := func(rec map[string][]uint32) (*RunResult, bool) {
		sp := base
		sp.Replay = rec
		r := runSpec(bin, sp, 3_000_001)
		return r, r.Diverged == 0 && hasViolation(prop, f.v.Rule, r, bin, 3_000_002)
	}
	var final *RunResult
	minimised := false
	orig, _ := countDecisions(rec)
	if rec != nil {
		r0, ok := strict(rec)
		if !ok {
			return "", false
		}
		final = r0
		if !noMin {
			budget := 45 * time.Second
			if tier == "thorough" {
				budget = 150 * time.Second
			}
			mrec := minimise(bin, prop, f.v.Rule, base, rec, budget, workers)
			if r1, ok := strict(mrec); ok {
				final, rec, minimised = r1, mrec, true
			}
		}
	} else {
		final = f.res
	}
	sp := base
	sp.Replay = rec
	detail := f.v.Detail
	for _, v := range violationsFor(prop, final, bin, 3_000_003) {
		if v.Rule == f.v.Rule && matchFinding(activeFindings, v) == nil {
			detail = v.Detail
			break
		}
	}
	n, nz := countDecisions(rec)
	rf := ReplayFile{Property: prop, Rule: f.v.Rule, Detail: detail, Seed: base.Seed, Family: base.Family, Minimised: minimised, Decisions: n, NonZero: nz,
		Spec: sp, Scenario: final.Sample, History: final.HistTail, Trace: tail(final.Trace, 200)}
	if minimised {
		rf.Original = orig
	}
	dir := filepath.Join(verifDir, "replays", prop)
	os.MkdirAll(dir, 0755)
	path := filepath.Join(dir, fmt.Sprintf("%s-%d.json", f.v.Rule, base.Seed))
	rf.HowToReplay = "cd /verif && ./check replay " + path
	b, _ := json.MarshalIndent(rf, "", " ")
	if err := os.WriteFile(path, b, 0644); err != nil {
		fatal2("replay file: %v", err)
	}
	return path, true
}

func tail(s []string, n int) []string {
	if len(s) > n {
		return s[len(s)-n:]
	}
	return s
}

// minimise shrinks the decision vectors while the same rule of the same
// property keeps firing. Candidates replay leniently; every accepted candidate
// is replaced by the vector re-recorded from its own run (canonical form).
func minimise(bin, prop, rule string, base RunSpec, rec map[string][]uint32, budget time.Duration, workers int) map[string][]uint32 {
	deadline := time.Now().Add(budget)
	cur := cloneRec(rec)
	idx := 4_000_000
	try := func(cands []map[string][]uint32) map[string][]uint32 {
		// evaluate candidates in parallel, accept the first (in order) that still fails
		results := make([]*RunResult, len(cands))
		start := idx
		idx += len(cands) * 2
		parallel(len(cands), workers, func(i int) {
			if time.Now().After(deadline) {
				return
			}
			sp := base
			sp.Replay = cands[i]
			r := runSpec(bin, sp, start+2*i)
			if hasViolation(prop, rule, r, bin, start+2*i+1) && r.Records != nil {
				results[i] = r
			}
		})
		for _, r := range results {
			if r != nil {
				return r.Records
			}
		}
		return nil
	}
	streams := []string{"sch", "sel", "net", "app", "scn", "lib"}
	// pass 1: zero / truncate whole streams
	for _, st := range streams {
		if time.Now().After(deadline) {
			return cur
		}
		c := cloneRec(cur)
		for i := 1; i < len(c[st]); i += 2 {
			c[st][i] = 0
		}
		if got := try([]map[string][]uint32{c}); got != nil {
			cur = got
		}
	}
	// pass 2: ddmin over the non-zero decisions of each stream
	for round := 0; round < 3; round++ {
		progress := false
		for _, st := range streams {
			nzIdx := func() []int {
				var ix []int
				v := cur[st]
				for i := 1; i < len(v); i += 2 {
					if v[i] != 0 {
						ix = append(ix, i)
					}
				}
				return ix
			}
			chunk := len(nzIdx())
			for chunk >= 1 {
				if time.Now().After(deadline) {
					return cur
				}
				ix := nzIdx()
				if len(ix) == 0 {
					break
				}
				if chunk > len(ix) {
					chunk = len(ix)
				}
				var cands []map[string][]uint32
				for s := 0; s < len(ix); s += chunk {
					e := s + chunk
					if e > len(ix) {
						e = len(ix)
					}
					c := cloneRec(cur)
					for _, i := range ix[s:e] {
						c[st][i] = 0
					}
					cands = append(cands, c)
					if len(cands) >= 4*workers {
						break
					}
				}
				if got := try(cands); got != nil {
					cur = got
					progress = true
					continue
				}
				if chunk == 1 {
					break
				}
				chunk = (chunk + 1) / 2
			}
		}
		// pass 3: halve remaining values (simpler choices)
		for _, st := range streams {
			if time.Now().After(deadline) {
				return cur
			}
			c := cloneRec(cur)
			ch := false
			for i := 1; i < len(c[st]); i += 2 {
				if c[st][i] > 1 {
					c[st][i] /= 2
					ch = true
				}
			}
			if ch {
				if got := try([]map[string][]uint32{c}); got != nil {
					cur = got
					progress = true
				}
			}
		}
		if !progress {
			break
		}
	}
	return cur
}

func cmdReplay(args []string) int {
	if len(args) < 1 {
		fatal2("usage: vcheck replay <file>")
	}
	b, err := os.ReadFile(args[0])
	if err != nil {
		fatal2("%v", err)
	}
	var rf ReplayFile
	if err := json.Unmarshal(b, &rf); err != nil {
		fatal2("bad replay file: %v", err)
	}
	bin := buildBinary(rf.Spec.Race) // a data-race report replays under the -race build
	sp := rf.Spec
	if len(args) > 2 && args[1] == "-rerecord" {
		// the tree or the machinery moved on since the file was written and the recorded
		// vector no longer replays without divergence, but still leads to the violation:
		// record the vector of that (lenient) run and keep it if it reproduces strictly
		sp.Record = true
		r := runSpec(bin, sp, 1)
		if r.Records == nil {
			fatal2("no decision vector recorded")
		}
		sp2 := rf.Spec
		sp2.Replay = r.Records
		r2 := runSpec(bin, sp2, 2)
		if r2.Diverged != 0 || !hasViolation(rf.Property, rf.Rule, r2, bin, 3) {
			fmt.Printf("the re-recorded vector does not reproduce %s/%s strictly (diverged=%d)\n", rf.Property, rf.Rule, r2.Diverged)
			return 2
		}
		rf.Spec = sp2
		for _, v := range violationsFor(rf.Property, r2, bin, 4) {
			if v.Rule == rf.Rule {
				rf.Detail = v.Detail
				break
			}
		}
		rf.Decisions, rf.NonZero = countDecisions(r.Records)
		rf.Minimised = false
		rf.Scenario, rf.History, rf.Trace = r2.Sample, r2.HistTail, tail(r2.Trace, 200)
		rf.HowToReplay = "cd /verif && ./check replay " + args[2]
		b, _ := json.MarshalIndent(rf, "", " ")
		if err := os.WriteFile(args[2], b, 0644); err != nil {
			fatal2("replay file: %v", err)
		}
		fmt.Printf("re-recorded into %s (%d decisions)\n", args[2], len(r.Records))
		return 0
	}
	sp.Trace = len(args) > 1 && args[1] == "-trace"
	r := runSpec(bin, sp, 1)
	vs := violationsFor(rf.Property, r, bin, 2)
	sort.Slice(vs, func(i, j int) bool { return vs[i].Rule < vs[j].Rule })
	fmt.Printf("replay of %s: seed=%d family=%s decisions diverged=%d steps=%d\n", args[0], rf.Seed, rf.Family, r.Diverged, r.Steps)
	for _, l := range r.Sample {
		fmt.Println("scenario:", l)
	}
	if sp.Trace {
		for _, l := range r.Trace {
			fmt.Println(l)
		}
	}
	for _, l := range tail(r.HistTail, 80) {
		fmt.Println("  ", l)
	}
	for _, v := range vs {
		if v.Rule == rf.Rule {
			fmt.Printf("VIOLATION property=%s replay=%s\n  rule=%s\n  %s\n", rf.Property, args[0], v.Rule, strings.ReplaceAll(v.Detail, "\n", "\n  "))
			if r.Diverged != 0 {
				fmt.Printf("  (note: %d decisions diverged from the recorded vector: the tree differs from the one the file was recorded on)\n", r.Diverged)
			}
			return 1
		}
	}
	fmt.Printf("the recorded violation %s/%s did not occur on this tree\n", rf.Property, rf.Rule)
	return 0
}

func cmdSelftest(args []string) int {
	if len(args) < 1 {
		fatal2("usage: vcheck selftest determinism [n]")
	}
	switch args[0] {
	case "determinism":
		return selftestDeterminism(args[1:])
	case "race":
		return selftestRace()
	}
	fatal2("unknown selftest %s", args[0])
	return 2
}
