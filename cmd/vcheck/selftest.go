package main

import (
	"fmt"
	"sort"
	"strconv"
	"sync"
)

// selftestDeterminism runs n seeds per family three times each, in separate
// processes at GOMAXPROCS 1, 4 and 16, and compares event hashes, schedule
// fingerprints, step counts and full decision vectors.
func selftestDeterminism(args []string) int {
	n := 40
	if len(args) > 0 {
		n, _ = strconv.Atoi(args[0])
	}
	bin := buildBinary(false)
	fams := map[string]bool{}
	for _, p := range props() {
		for _, f := range p.Families {
			fams[f.Name] = true // enumeration families run with a case drawn from the seed
		}
	}
	if len(args) > 1 {
		fams = map[string]bool{args[1]: true}
	}
	var names []string
	for f := range fams {
		names = append(names, f)
	}
	sort.Strings(names)
	seed := seedFromEnv()
	bad := 0
	total := 0
	var mu sync.Mutex
	for _, fam := range names {
		fbad := 0
		parallel(n, 16, func(i int) {
			sp := RunSpec{Family: fam, Prop: "C11", Seed: splitmix(seed^strHash(fam)) + uint64(i), Case: -1, Record: true}
			var rs [3]*RunResult
			for k, g := range []string{"1", "4", "16"} {
				rs[k] = runSpecEnv(bin, sp, 10*i+k, g)
			}
			mu.Lock()
			defer mu.Unlock()
			total++
			for k := 1; k < 3; k++ {
				if rs[k].EventHash != rs[0].EventHash || rs[k].FP != rs[0].FP || rs[k].Steps != rs[0].Steps || !sameRec(rs[k].Records, rs[0].Records) || rs[0].crashed || rs[0].hang {
					fbad++
					fmt.Printf("MISMATCH family=%s seed=%d: run0 %s/%s/%d crashed=%v run%d %s/%s/%d\n", fam, sp.Seed, rs[0].EventHash, rs[0].FP, rs[0].Steps, rs[0].crashed, k, rs[k].EventHash, rs[k].FP, rs[k].Steps)
					break
				}
			}
		})
		fmt.Printf("determinism: family %-10s %d seeds x 3 processes (GOMAXPROCS 1/4/16): %d mismatches\n", fam, n, fbad)
		bad += fbad
	}
	if bad > 0 {
		fmt.Printf("determinism self-test FAILED: %d of %d\n", bad, total)
		return 2
	}
	fmt.Printf("determinism self-test passed: %d seeds, 3 processes each\n", total)
	return 0
}

func sameRec(a, b map[string][]uint32) bool {
	if len(a) != len(b) {
		return false
	}
	for k, v := range a {
		w := b[k]
		if len(v) != len(w) {
			return false
		}
		for i := range v {
			if v[i] != w[i] {
				return false
			}
		}
	}
	return true
}
