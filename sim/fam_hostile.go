package vsim

import (
	"encoding/binary"
	"fmt"
	"time"

	tchannel "github.com/uber/tchannel-go"
	"github.com/uber/tchannel-go/simrt"
	"vsim/wire"
)

func init() { families["hostile"] = famHostile }

var boundaryBytes = []byte{0, 1, 2, 3, 4, 5, 9, 0x7f, 0x80, 0xfe, 0xff}

// hostileBoundedTTL: the generators avoid time-to-live values beyond a few seconds (set in
// runs where the hostile connections stay open while quiescence is judged).
var hostileBoundedTTL bool

func csumLen(t byte) int {
	if t == wire.CsumNone {
		return 0
	}
	return 4
}

// hostileFrame builds one frame (or non-frame) of hostile input. desc says what it is.
func hostileFrame(c *RawConn, inflight []uint32, service string) (out []byte, desc string) {
	if len(c.Queue) > 0 {
		out, desc = c.Queue[0], c.QueueDesc[0]
		c.Queue, c.QueueDesc = c.Queue[1:], c.QueueDesc[1:]
		return out, desc
	}
	id := c.ID()
	pickID := func() uint32 {
		switch scn(4) {
		case 0:
			if len(inflight) > 0 {
				return inflight[scn(len(inflight))]
			}
		case 1:
			return 0xffffffff
		case 2:
			return uint32(scn(5))
		}
		return id
	}
	validReq := func(more bool, csum byte) []byte {
		spec := wire.CallSpec{Type: wire.TCallReq, ID: pickID(), TTL: uint32(1 + scn(5000)), Service: service,
			Headers: []wire.KV{{K: "cn", V: "rawcaller"}, {K: "as", V: "raw"}}, CsumType: csum,
			Args: [3][]byte{[]byte("echo"), []byte("tag=h;mode=echo;delay=0;code=0;rs2=-1;rs3=-1;msg=\n"), payload("h", 3, scn(300))}}
		if more {
			spec.MaxFrame = 120 + scn(100)
		}
		frs := wire.EncCall(spec)
		return frs[0]
	}
	switch k := scn(22); k {
	case 20, 21:
		// a call req that ENDS right after the method name (no arg2, no arg3, no more
		// fragments): only noticed when the reader closes arg1
		f := validReq(false, wire.CsumNone)
		fr, _ := wire.Decode(append([]byte(nil), f...))
		n := fr.ArgOff + 2 + int(binary.BigEndian.Uint16(f[fr.ArgOff:]))
		f = append([]byte(nil), f[:n]...)
		f[wire.HeaderSize] = 0
		binary.BigEndian.PutUint16(f, uint16(len(f)))
		return f, "call req that ends right after the method name"
	case 0:
		n := 1 + scn(200)
		b := make([]byte, n)
		for i := range b {
			b[i] = byte(scn(256))
		}
		return b, fmt.Sprintf("random bytes x%d", n)
	case 1:
		f := validReq(false, wire.CsumCRC32)
		cut := 1 + scn(len(f)-1)
		return f[:cut], fmt.Sprintf("call req truncated at %d of %d", cut, len(f))
	case 2:
		f := validReq(false, byte(scn(4)))
		sz := []uint16{0, 1, 15, 16, 17, uint16(len(f) - 1), uint16(len(f) + 1), 0xffff}[scn(8)]
		binary.BigEndian.PutUint16(f, sz)
		return f, fmt.Sprintf("call req with header size %d (real %d)", sz, len(f))
	case 3:
		// unknown checksum type
		f := validReq(scnChance(1, 2), wire.CsumNone)
		fr, _ := wire.Decode(append([]byte(nil), f...))
		t := []byte{4, 5, 9, 0x7f, 0xff}[scn(5)]
		f[fr.ArgOff-1] = t
		return f, fmt.Sprintf("call req with checksum type %d", t)
	case 4:
		// fragment without any chunk
		f := validReq(false, wire.CsumNone)
		fr, _ := wire.Decode(append([]byte(nil), f...))
		f = f[:fr.ArgOff]
		binary.BigEndian.PutUint16(f, uint16(len(f)))
		if scnChance(1, 2) {
			f[wire.HeaderSize] = wire.FlagFragment
		}
		return f, "call req with no chunk at all"
	case 5:
		// one byte of the fixed part set to a boundary value
		f := validReq(scnChance(1, 2), byte(scn(4)))
		pos := wire.HeaderSize + scn(min(len(f)-wire.HeaderSize, 60))
		if hostileBoundedTTL && pos >= wire.HeaderSize+1 && pos <= wire.HeaderSize+4 {
			pos = wire.HeaderSize + 5 // (not the ttl)
		}
		v := boundaryBytes[scn(len(boundaryBytes))]
		f[pos] = v
		return f, fmt.Sprintf("call req byte %d := %#x", pos, v)
	case 6:
		// chunk length exceeding the frame / zero / max
		f := validReq(false, wire.CsumCRC32)
		fr, _ := wire.Decode(append([]byte(nil), f...))
		v := []uint16{0, 1, 0x7fff, 0xffff, uint16(len(f))}[scn(5)]
		binary.BigEndian.PutUint16(f[fr.ArgOff:], v)
		return f, fmt.Sprintf("call req first chunk length := %d", v)
	case 7:
		t := []byte{wire.TCallReqCont, wire.TCallResCont, wire.TCallRes}[scn(3)]
		f := validReq(false, wire.CsumNone)
		fr, _ := wire.Decode(append([]byte(nil), f...))
		// flags + checksum type + chunks only
		body := append([]byte{byte(scn(2)), 0}, f[fr.ArgOff:]...)
		if t == wire.TCallRes {
			body = append([]byte{byte(scn(2)), byte(scn(3))}, make([]byte, 25)...)
			body = append(body, 0, 0)
			body = append(body, f[fr.ArgOff:]...)
		}
		o := make([]byte, wire.HeaderSize)
		o[2] = t
		binary.BigEndian.PutUint32(o[4:], pickID())
		o = append(o, body...)
		binary.BigEndian.PutUint16(o, uint16(len(o)))
		return o, fmt.Sprintf("%s for an id without request", wire.TypeName(t))
	case 8:
		ver := []uint16{0, 1, 2, 3, 0xffff}[scn(5)]
		t := []byte{wire.TInitReq, wire.TInitRes}[scn(2)]
		return wire.EncInit(t, pickID(), ver, stdInitParams("0.0.0.0:0", "raw")), fmt.Sprintf("%s v%d after the handshake", wire.TypeName(t), ver)
	case 9:
		t := []byte{0x00, 0x05, 0x12, 0x7f, 0xc1, 0xc2, 0xfe}[scn(7)]
		o := make([]byte, wire.HeaderSize+scn(40))
		o[2] = t
		binary.BigEndian.PutUint32(o[4:], pickID())
		binary.BigEndian.PutUint16(o, uint16(len(o)))
		return o, fmt.Sprintf("unknown message type %#x", t)
	case 10:
		code := []byte{0, 1, 2, 3, 4, 5, 6, 7, 8, 0x40, 0xff}[scn(11)]
		return wire.EncError(pickID(), code, wire.Span{}, "hostile"), fmt.Sprintf("error frame code %#x", code)
	case 11:
		t := []byte{wire.TPingReq, wire.TPingRes, wire.TCancel, wire.TClaim}[scn(4)]
		o := wire.EncPing(t, pickID())
		if t == wire.TCancel && scnChance(1, 2) {
			o = wire.EncCancel(pickID(), uint32(scn(1000)), wire.Span{}, "why")
		}
		if scnChance(1, 3) {
			o = append(o, make([]byte, 1+scn(30))...)
			binary.BigEndian.PutUint16(o, uint16(len(o)))
		}
		return o, wire.TypeName(t)
	case 12:
		// error / cancel truncated inside its fixed part
		o := wire.EncError(pickID(), 5, wire.Span{}, "x")
		if scnChance(1, 2) {
			o = wire.EncCancel(pickID(), 10, wire.Span{}, "x")
		}
		cut := wire.HeaderSize + scn(len(o)-wire.HeaderSize)
		o = o[:cut]
		binary.BigEndian.PutUint16(o, uint16(len(o)))
		return o, fmt.Sprintf("short error/cancel frame (%d bytes)", cut)
	case 13:
		// header fields of a call req at their limits
		f := validReq(false, wire.CsumNone)
		switch scn(3) {
		case 0: // nh says 255 headers
			fr, _ := wire.Decode(append([]byte(nil), f...))
			_ = fr
			f[wire.HeaderSize+1+4+25+1+len(service)] = 255
			return f, "call req claiming 255 transport headers"
		case 1: // service length 255
			f[wire.HeaderSize+1+4+25] = 255
			return f, "call req with service length 255"
		default:
			lim := []uint32{0, 0xffffffff}[scn(2)]
			if hostileBoundedTTL {
				lim = 0
			}
			binary.BigEndian.PutUint32(f[wire.HeaderSize+1:], lim)
			return f, "call req with ttl at a limit"
		}
	case 16, 17:
		// a call response for an id in flight, cut inside or right after its fixed part
		// (flags, code, span, header count, checksum type), as the last frame of the response
		id := pickID()
		if len(inflight) > 0 {
			id = inflight[scn(len(inflight))]
		}
		frs := wire.EncCall(wire.CallSpec{Type: wire.TCallRes, ID: id, CsumType: byte(scn(3)), Headers: []wire.KV{{K: "as", V: "raw"}}, Args: [3][]byte{nil, []byte("r;x\n"), payload("h", 13, scn(200))}})
		f := frs[0]
		cut := wire.HeaderSize + scn(min(len(f)-wire.HeaderSize, 45))
		f = append([]byte(nil), f[:cut]...)
		binary.BigEndian.PutUint16(f, uint16(len(f)))
		return f, fmt.Sprintf("call res for id %d truncated to %d payload bytes", id, cut-wire.HeaderSize)
	case 18, 19:
		// a call whose METHOD NAME (arg1) does not fit the first fragment and continues in a
		// second one - which never comes, or is something else entirely
		spec := wire.CallSpec{Type: wire.TCallReq, ID: pickID(), TTL: uint32(1 + scn(300)), Service: service,
			Headers: []wire.KV{{K: "cn", V: "rawcaller"}, {K: "as", V: "raw"}}, CsumType: []byte{wire.CsumNone, wire.CsumCRC32}[scn(2)],
			Args: [3][]byte{payload("method", 1, 40+scn(200)), []byte("x"), []byte("y")}}
		full := wire.EncCall(spec)[0]
		fr, _ := wire.Decode(append([]byte(nil), full...))
		spec.MaxFrame = fr.ArgOff + 2 + 1 + scn(30)
		frs := wire.EncCall(spec)
		if len(frs) > 1 && scnChance(2, 3) {
			// ... and the second fragment does come: whole, or damaged in a way only the
			// fragment reader notices (the call is then neither started nor cleaned up by
			// the paths that handle a bad FIRST fragment)
			cont := append([]byte(nil), frs[1]...)
			what := "the continuation, intact"
			switch scn(5) {
			case 0: // chunk length beyond the frame
				binary.BigEndian.PutUint16(cont[wire.HeaderSize+2+csumLen(spec.CsumType):], 0xfff0)
				what = "the continuation with a chunk length beyond the frame"
			case 1: // checksum off (only with a checksum)
				if spec.CsumType != wire.CsumNone {
					cont[wire.HeaderSize+2] ^= 0x55
					what = "the continuation with a wrong checksum"
				}
			case 2: // no chunk at all
				cont = cont[:wire.HeaderSize+2+csumLen(spec.CsumType)]
				binary.BigEndian.PutUint16(cont, uint16(len(cont)))
				what = "the continuation without any chunk"
			case 3: // the message ends with the method name: nothing after arg1, no more fragments
				n := wire.HeaderSize + 2 + csumLen(spec.CsumType)
				n += 2 + int(binary.BigEndian.Uint16(cont[n:]))
				if spec.CsumType == wire.CsumNone && n <= len(cont) {
					cont = cont[:n]
					cont[wire.HeaderSize] = 0
					binary.BigEndian.PutUint16(cont, uint16(len(cont)))
					what = "the continuation ending the message right after the method name"
				}
			}
			c.Queue = append(c.Queue, cont)
			c.QueueDesc = append(c.QueueDesc, what)
			for _, rest := range frs[2:] {
				c.Queue = append(c.Queue, rest)
				c.QueueDesc = append(c.QueueDesc, "a further fragment of that call")
			}
		}
		return frs[0], "first fragment of a call whose method name continues in the next fragment"
	case 14:
		// a complete, valid small call (keeps legitimate state around the hostile frames)
		return validReq(false, []byte{wire.CsumNone, wire.CsumCRC32, wire.CsumCRC32C}[scn(3)]), "valid call req"
	default:
		// first fragment of a multi-fragment call, never continued (or continued wrongly later)
		return validReq(true, []byte{wire.CsumNone, wire.CsumCRC32}[scn(2)]), "first fragment of a call (never completed)"
	}
}

// famHostile: a real server (optionally behind a real relay) and a real
// client facing raw peers that send arbitrary and boundary-mutated bytes
// before, during and after the handshake, while legitimate traffic runs on
// other connections. Serves C03 (and C11, C12).
func famHostile(w *World) {
	w.Grid = time.Millisecond
	w.NoFault = false
	w.drawSchedule(false)
	w.linkDefaults()
	srv := w.addNode(NodeOpts{Name: "s0", Service: "svc0", Host: "10.0.2.1", Port: 5000, Conn: w.connOptsBig()})
	srv.Ch.Register(&echoHandler{w: w, n: srv}, "echo")
	target := srv
	withRelay := scnChance(1, 3)
	var relaySpy *SpyRelayHost
	calleeBehindRelay := false
	if withRelay {
		spy := &SpyRelayHost{w: w, name: "r0", IterCheck: scnChance(1, 2)}
		relaySpy = spy
		rn := w.addNode(NodeOpts{Name: "r0", Service: "relay", Host: "10.0.1.1", Port: 4500, Conn: w.connOptsBig(), Relay: spy})
		spy.Add(srv.Service, srv.HostPort)
		target = rn
	}
	cli := w.addNode(NodeOpts{Name: "c0", Service: "client0", Host: "10.0.3.1", Conn: w.connOptsBig()})
	// lingering: the hostile clients keep their connections open and start only calls with a
	// time-to-live of seconds; once those have run out the server must hold nothing for
	// them although the connections are still there (a call whose request could not be read
	// has failed like any other)
	linger := scnChance(1, 4)
	hostileBoundedTTL = linger
	w.describe("hostile relay=%v linger=%v", withRelay, linger)

	legit := func(tag string) *CallRec {
		r := w.newCall(CallSpec{Tag: tag, From: cli, To: target.HostPort, Service: srv.Service, Via: "legit", Timeout: 5 * time.Second, Pad2: scn(500), Len3: scn(80000), Rs2: -1, Rs3: -1})
		w.Call(r)
		return r
	}
	// a legitimate connection exists before the hostile traffic starts
	if r := legit("warm"); r.Err != nil {
		w.violate("C03", "warmup-failed", "legitimate call before any hostile input failed: %s", errStr(r.Err))
	}

	var fs []func()
	nraw := 1 + scn(3)
	for i := 0; i < nraw; i++ {
		rp := w.newRawPeer(fmt.Sprintf("raw%d", i), fmt.Sprintf("10.0.9.%d", i+1))
		stage := scn(4)
		nframes := 1 + scn(8)
		fs = append(fs, func() {
			c, err := rp.Dial(target.HostPort)
			if err != nil {
				return
			}
			switch stage {
			case 0: // garbage instead of a handshake
				b, d := hostileFrame(c, nil, srv.Service)
				w.event("hostile", "%s pre-handshake: %s", rp.Name, d)
				c.Send(b)
			case 1: // handshake with one field off
				hpv := []string{"0.0.0.0:0", "", ":0", "nonsense", "10.0.9.9:1"}[scn(5)] // odd host_port values in an otherwise valid init req
				np := scn(3)
				if hpv != "0.0.0.0:0" {
					np = len(stdInitParams(hpv, rp.Name))
				}
				f := wire.EncInit(wire.TInitReq, 1, []uint16{0, 1, 2, 3}[scn(4)], stdInitParams(hpv, rp.Name)[:np])
				if scnChance(1, 3) {
					f = f[:wire.HeaderSize+scn(len(f)-wire.HeaderSize)]
				}
				w.event("hostile", "%s bad handshake (%d bytes)", rp.Name, len(f))
				c.Send(f)
			default:
				if err := c.Handshake(); err != nil {
					w.event("hostile", "%s handshake failed: %v", rp.Name, err)
					return
				}
			}
			var inflight []uint32
			for k := 0; k < nframes; k++ {
				b, d := hostileFrame(c, inflight, srv.Service)
				if len(b) >= 8 {
					inflight = append(inflight, binary.BigEndian.Uint32(b[4:]))
				}
				w.event("hostile", "%s -> %s: %s", rp.Name, target.Name, d)
				if err := c.Send(b); err != nil {
					break
				}
				if scnChance(1, 3) {
					sleep(time.Duration(scn(5)) * w.Grid)
				}
			}
			w.probe("ops.done")
			// drain whatever comes back for a while, then hang up (or not)
			for k := 0; k < 20; k++ {
				if _, err := c.ReadFrame(50 * time.Millisecond); err != nil {
					break
				}
			}
			if scnChance(2, 3) && !linger {
				c.c.Close()
			}
		})
	}
	// a real client against a hostile raw server
	if scnChance(1, 2) {
		rs := w.newRawPeer("rawsrv", "10.0.8.1")
		mode := scn(3)
		hp := rs.Listen(6000, func(c *RawConn) {
			if mode == 0 {
				b, d := hostileFrame(c, nil, "x")
				w.event("hostile", "rawsrv handshake reply: %s", d)
				c.Send(b)
				return
			}
			if err := c.ServerHandshake("10.0.8.1:6000"); err != nil {
				return
			}
			if mode == 2 && scnChance(1, 2) {
				// unsolicited terminal frames for the ids its peer is about to use (message ids are
				// sequential and therefore predictable): they race with the peer's set-up of the
				// very calls they name
				k := 2 + scn(20)
				gapUs := []int{0, 0, 50, 200, 1000}[scn(5)]
				w.Net.Fired["peer.unsolicited-terminal"]++
				simrt.Go("h/hostile-unsolicited", func() {
					for i := 0; i < k; i++ {
						id := uint32(1 + scn(6))
						var b []byte
						if scnChance(1, 2) {
							b = wire.EncError(id, []byte{1, 3, 5, 7}[scn(4)], wire.Span{}, "unsolicited")
						} else {
							b = wire.EncCall(wire.CallSpec{Type: wire.TCallRes, ID: id, CsumType: wire.CsumNone, Args: [3][]byte{nil, []byte("r;x\n"), []byte("y")}})[0]
						}
						if c.Send(b) != nil {
							return
						}
						if gapUs > 0 {
							sleep(time.Duration(gapUs) * time.Microsecond)
						}
					}
				})
			}
			for {
				f, err := c.ReadFrame(10 * time.Second)
				if err != nil {
					return
				}
				if f.Type != wire.TCallReq {
					continue
				}
				n := 1 + scn(4)
				for k := 0; k < n; k++ {
					b, d := hostileFrame(c, []uint32{f.ID}, "x")
					w.event("hostile", "rawsrv -> client: %s", d)
					if c.Send(b) != nil {
						return
					}
				}
			}
		})
		x := w.addNode(NodeOpts{Name: "x0", Service: "clientx", Host: "10.0.3.9", Conn: w.connOptsBig()})
		to := hp
		if withRelay && scnChance(1, 2) {
			// the hostile server is a callee behind the relay
			relaySpy.Add("x", hp)
			to = target.HostPort
			calleeBehindRelay = true
			w.Net.Fired["peer.hostile-callee-behind-relay"]++
		}
		fs = append(fs, func() {
			for k := 0; k < 1+scn(3); k++ {
				r := w.newCall(CallSpec{From: x, To: to, Service: "x", Via: "to-raw-server", Timeout: time.Duration(50+scn(500)) * w.Grid, Len3: scn(2000), Rs2: -1, Rs3: -1, NoCheck: true})
				w.Call(r)
			}
		})
	}
	// legitimate traffic on the other connection throughout
	fs = append(fs, func() {
		for k := 0; k < 1+scn(3); k++ {
			legit("")
			sleep(time.Duration(scn(10)) * w.Grid)
		}
	})
	w.tasks(fs...)

	// liveness probes after the hostile input
	w.eval("C03.liveness-probe")
	if r := legit("probe"); r.Err != nil {
		w.violate("C03", "legit-call-fails-after-hostile-input", "a legitimate call on another connection failed after hostile input: %s", errStr(r.Err))
	}
	rp := w.newRawPeer("raw0b", "10.0.9.1") // same host as the first hostile peer
	if c, err := rp.Dial(target.HostPort); err != nil {
		w.violate("C03", "no-new-connection-after-hostile-input", "a new connection from the hostile peer's address is refused: %v", err)
	} else if err := c.Handshake(); err != nil {
		w.violate("C03", "no-new-connection-after-hostile-input", "handshake on a new connection from the hostile peer's address failed: %v", err)
	} else {
		spec, want2, want3 := rawEchoRequest(w, srv.Service, "rawprobe", 100, 3000, wire.CsumCRC32, 5000)
		res := c.Call(spec, 5*time.Second)
		if res.Err != nil || res.ErrCode >= 0 || string(res.Args[1]) != string(want2) || string(res.Args[2]) != string(want3) {
			w.violate("C03", "conforming-call-fails-after-hostile-input", "a conforming call on a new connection from the hostile peer's address failed: err=%v code=%d msg=%q", res.Err, res.ErrCode, res.ErrMsg)
		}
		c.c.Close()
	}
	// "once all calls have completed, failed or timed out": a hostile peer may
	// have started calls with any ttl, so it hangs up first (ending its calls on
	// a directly connected server), and what it started through a relay is
	// bounded by the relay's maximum timeout (2m by default) plus the tombstone
	// period
	if linger {
		w.QuiesceStarted = true
		w.stopLags()
		for _, l := range w.Net.Links {
			l.Heal()
		}
		if withRelay {
			w.settle(3 * time.Minute)
		} else {
			w.settle(15 * time.Second)
		}
		w.event("quiesce", "with the hostile clients still connected")
		w.probe("hostile.quiescence-judged-with-hostile-clients-connected")
		w.checkQuiescent()
	}
	for _, rp := range w.RawPeers {
		if rp.L == nil {
			rp.CloseAll()
		}
	}
	if calleeBehindRelay {
		// the hostile CALLEE stays connected: every call routed to it was started by a real
		// client with a bounded ttl, so whatever it answered (or not), the relay must have
		// forgotten those calls by now without the connection going away
		w.QuiesceStarted = true
		w.stopLags()
		for _, l := range w.Net.Links {
			l.Heal()
		}
		w.settle(3 * time.Minute)
		w.event("quiesce", "with the hostile callee still connected")
		w.checkQuiescent()
	}
	for _, rp := range w.RawPeers {
		rp.CloseAll()
	}
	w.quiesce(3*time.Minute, true)
}

var _ = simrt.Elapsed
var _ tchannel.ChecksumType
