// Package simrt is the simulation runtime: a seeded scheduler that runs exactly
// one managed goroutine at a time inside a testing/synctest bubble, scheduler-
// aware replacements for the sync primitives, and the decision tapes every
// random choice of a run is drawn from.
//
// It is copied into the scratch copy of the library as package
// github.com/uber/tchannel-go/simrt; the instrumenter (cmd/vinstr) rewrites
// library and harness code to call into it.
package simrt

import (
	"fmt"
	"runtime/debug"
	"sort"
	"strings"
	"sync"
	"testing/synctest"
	"time"
	_ "unsafe"
)

//go:linkname runtimeSimGoid runtime.simGoid
func runtimeSimGoid() uint64

//go:linkname runtimeSetSelectHook runtime.simSetSelectHook
func runtimeSetSelectHook(f func(n uint32) uint32)

type gstate int32

const (
	stRunning  gstate = iota // released by the scheduler (running, or found natively blocked at the next Wait)
	stRunnable               // parked at a scheduling point, may be released
	stNative                 // durably blocked in a native channel/timer operation
	stBlocked                // blocked on a sim primitive until made runnable
	stDone
	stLagging // runnable, but held back by the scheduler for a while (a slow goroutine: others run, time may pass)
)

// G is a managed goroutine.
type G struct {
	Key   string // deterministic identity: spawn site, ordinal, parent hash
	Site  string // spawn site (file:line)
	kh    uint64
	wake  chan struct{}
	state gstate
	why   string // where it is parked / what it waits for
	prio  int    // PCT priority
	goid  uint64
	last  string // latest instrumented scheduling point
	Lib   bool   // spawned from library code (site is not in a harness file)
}

// Policy selects how preemption decisions are made.
type Policy int

const (
	PolRandom   Policy = iota // switch with a per-run probability at each scheduling point
	PolPCT                    // priority-based with a few random priority change points
	PolStraight               // never preempt; switch only when the running goroutine blocks
)

// Config is fixed for one run.
type Config struct {
	Seed      uint64
	Replay    map[string][]uint32 // stream name -> recorded vector; nil = fresh run
	Policy    Policy
	SwitchPM  int      // per-mille switch probability at a scheduling point (PolRandom)
	HotFiles  []string // files whose sites preempt with HotPM instead
	HotPM     int
	PCTDepth  int // number of priority change points (PolPCT)
	PCTSpan   int // change points are drawn in [0,PCTSpan) steps
	StallPM   int // per-mille probability, at a scheduler decision, of letting simulated time pass although goroutines are runnable
	LagWakePM int // the same for a goroutine that has just been woken out of a blocking channel operation (late wake-up)
	LagPM     int // per-mille probability, at a scheduler decision, that the chosen LIBRARY goroutine is held back for a while instead of being released (the others go on; time passes only if nobody else can run)
	Grid      time.Duration
	MaxSteps  int
	MaxSim    time.Duration // abort when simulated time since start exceeds this
	IdleQuit  time.Duration // nothing runnable for this much simulated time => deadlock/leftover verdict
	Trace     bool
	TraceTail int // keep this many last trace lines (0 = none unless Trace)
}

// PanicInfo describes a panic recovered at the top of a managed goroutine. In
// production such a panic terminates the process.
type PanicInfo struct {
	G     string
	Site  string
	Lib   bool
	Value string
	Stack string
	Step  int
	At    time.Duration
}

// Sched is the scheduler of one run.
type Sched struct {
	mu     sync.Mutex
	cfg    Config
	gs     map[string]*G
	byGoid map[uint64]*G
	order  []*G // creation order, for stable iteration
	tapes  [numStreams]*Tape
	kick   chan struct{}
	spawn  map[string]int
	start  time.Time

	Steps     int
	Switches  int
	Preempts  int
	Stalls    int
	Lags      int
	StallTime time.Duration // injected (global) stall time; see Stalled() for the figure oracles discount
	lagSpans  []lagSpan
	FP        uint64 // schedule fingerprint: hash of (goroutine, park site) per switch
	SitePairs map[uint64]struct{}

	hot      map[string]bool
	pctAt    map[int]bool
	lowPrio  int
	instants []time.Time

	aborted  bool
	AbortWhy string
	Panics   []PanicInfo
	trace    []string
	lastG    *G
	timerSeq int

	selOwner uint64 // goid allowed to draw select order from the tape
}

var cur *Sched

// Cur returns the scheduler of the current run (nil outside a run).
func Cur() *Sched { return cur }

func fnv64(s string) uint64 {
	h := uint64(14695981039346656037)
	for i := 0; i < len(s); i++ {
		h ^= uint64(s[i])
		h *= 1099511628211
	}
	return h
}

// New creates the scheduler of a run. Must be called inside the bubble.
func New(cfg Config) *Sched {
	if cfg.Grid <= 0 {
		cfg.Grid = time.Millisecond
	}
	if cfg.MaxSteps <= 0 {
		cfg.MaxSteps = 2_000_000
	}
	if cfg.IdleQuit <= 0 {
		cfg.IdleQuit = time.Hour
	}
	if cfg.MaxSim <= 0 {
		cfg.MaxSim = 24 * time.Hour
	}
	s := &Sched{cfg: cfg, gs: map[string]*G{}, byGoid: map[uint64]*G{}, kick: make(chan struct{}, 1),
		spawn: map[string]int{}, start: time.Now(), hot: map[string]bool{}, SitePairs: map[uint64]struct{}{}}
	for i := Stream(0); i < numStreams; i++ {
		var rep []uint32
		if cfg.Replay != nil {
			rep = cfg.Replay[StreamNames[i]]
		}
		s.tapes[i] = newTape(cfg.Seed, i, rep, cfg.Replay != nil)
	}
	s.initPCT()
	cur = s
	runtimeSetSelectHook(s.selectHook)
	return s
}

func (s *Sched) initPCT() {
	s.pctAt = nil
	if s.cfg.Policy == PolPCT {
		s.pctAt = map[int]bool{}
		span := s.cfg.PCTSpan
		if span <= 0 {
			span = 3000
		}
		for i := 0; i < s.cfg.PCTDepth; i++ {
			s.pctAt[1+s.tapes[StrSch].Draw(span)] = true
		}
	}
}

// Configure changes the scheduling parameters (drawn by the scenario from its
// own decision stream after the scheduler exists). Call before Run.
func (s *Sched) Configure(f func(c *Config)) {
	raceDisable()
	defer raceEnable()
	s.mu.Lock()
	f(&s.cfg)
	s.hot = map[string]bool{}
	s.initPCT()
	s.mu.Unlock()
}

// SetLateWake changes the late-wake-up rate of the running schedule (a scenario
// built around a goroutine being slow to notice what it was woken for).
func (s *Sched) SetLateWake(pm int) {
	raceDisable()
	defer raceEnable()
	s.mu.Lock()
	s.cfg.LagWakePM = pm
	s.mu.Unlock()
}

// StopLags ends the slow-goroutine fault for the rest of the run (faults stop
// before liveness and quiescence are judged) and returns how long the longest
// lag still in progress has to go.
func (s *Sched) StopLags() time.Duration {
	raceDisable()
	defer raceEnable()
	s.mu.Lock()
	defer s.mu.Unlock()
	s.cfg.LagPM, s.cfg.LagWakePM = 0, 0
	// ... and so do the global stalls: a settle period that is eaten by a stall of minutes
	// (time passes, nothing happens) would let quiescence be judged on a system that has
	// not had its time yet
	s.cfg.StallPM = 0
	var left time.Duration
	now := time.Now()
	for _, l := range s.lagSpans {
		if d := l.end.Sub(now); d > left {
			left = d
		}
	}
	return left
}

// Cfg returns the current configuration.
func (s *Sched) Cfg() Config { return s.cfg }

// Tape gives access to a decision stream.
func (s *Sched) Tape(st Stream) *Tape { return s.tapes[st] }

// Draw draws from a stream of the current run. Safe only from the running
// managed goroutine (or before Run starts).
func Draw(st Stream, n int) int {
	raceDisable()
	defer raceEnable()
	s := cur
	s.mu.Lock()
	v := s.tapes[st].Draw(n)
	s.mu.Unlock()
	return v
}

// Chance draws a num/den coin from a stream of the current run.
func Chance(st Stream, num, den int) bool {
	raceDisable()
	defer raceEnable()
	s := cur
	s.mu.Lock()
	v := s.tapes[st].Chance(num, den)
	s.mu.Unlock()
	return v
}

// LibSeed is what the library's own time-seeded RNGs are seeded with.
func LibSeed() int64 {
	raceDisable()
	defer raceEnable()
	s := cur
	if s == nil {
		return 1
	}
	s.mu.Lock()
	a := s.tapes[StrLib].Draw(1 << 30)
	s.mu.Unlock()
	return int64(a) + 1
}

// Elapsed is the simulated time since the run started.
func Elapsed() time.Duration {
	raceDisable()
	defer raceEnable()
	if cur == nil {
		return 0
	}
	return time.Since(cur.start)
}

func (s *Sched) selectHook(n uint32) uint32 {
	raceDisable()
	defer raceEnable()
	// Called by the runtime for every select with n ready-order slots, on the
	// selecting goroutine. Only the running managed goroutine may consume the
	// tape; anything else (runtime-internal goroutines inside the bubble) gets
	// a fixed order so that tape consumption stays deterministic.
	id := runtimeSimGoid()
	s.mu.Lock()
	defer s.mu.Unlock()
	if s.aborted {
		return 0
	}
	g := s.byGoid[id]
	if g == nil || g.state != stRunning || id != s.selOwner {
		return 0
	}
	return uint32(s.tapes[StrSel].Draw(int(n)))
}

func (s *Sched) me() *G {
	raceDisable()
	defer raceEnable()
	id := runtimeSimGoid()
	s.mu.Lock()
	g := s.byGoid[id]
	s.mu.Unlock()
	return g
}

// Self returns the key of the calling managed goroutine ("" if unmanaged).
func Self() string {
	raceDisable()
	defer raceEnable()
	if cur == nil {
		return ""
	}
	if g := cur.me(); g != nil {
		return g.Key
	}
	return ""
}

func isLibSite(site string) bool {
	return !strings.HasPrefix(site, "h/") && !strings.HasPrefix(site, "simrt")
}

func (s *Sched) newG(site string, parent *G) *G {
	pk := "root"
	if parent != nil {
		pk = parent.Key
	}
	base := pk + "/" + site
	n := s.spawn[base]
	s.spawn[base] = n + 1
	key := fmt.Sprintf("%s#%d@%08x", site, n, uint32(fnv64(pk)))
	g := &G{Key: key, Site: site, kh: fnv64(key), wake: make(chan struct{}), state: stRunnable, why: "start", Lib: isLibSite(site)}
	if s.cfg.Policy == PolPCT {
		g.prio = 1000 + s.tapes[StrSch].Draw(1000)
	}
	s.gs[key] = g
	s.order = append(s.order, g)
	return g
}

// Go starts a managed goroutine. site identifies the go statement.
func Go(site string, f func()) {
	s := cur
	if s == nil {
		go f()
		return
	}
	raceDisable()
	parent := s.me()
	s.mu.Lock()
	g := s.newG(site, parent)
	s.mu.Unlock()
	raceEnable()
	go s.body(g, f) // the go statement itself stays visible: parent happens-before child
}

func (s *Sched) body(g *G, f func()) {
	raceDisable()
	id := runtimeSimGoid()
	s.mu.Lock()
	g.goid = id
	s.byGoid[id] = g
	s.mu.Unlock()
	s.kickSched()
	<-g.wake
	raceEnable()
	defer func() {
		raceDisable() // the goroutine ends here
		if r := recover(); r != nil {
			s.recordPanic(g, r, debug.Stack())
			// the run is aborted; this goroutine simply ends
		}
		s.mu.Lock()
		g.state = stDone
		delete(s.byGoid, id)
		s.mu.Unlock()
		s.kickSched()
	}()
	f()
}

func (s *Sched) recordPanic(g *G, r interface{}, stack []byte) {
	raceDisable()
	defer raceEnable()
	s.mu.Lock()
	defer s.mu.Unlock()
	if _, ok := r.(abortSignal); ok {
		return
	}
	s.Panics = append(s.Panics, PanicInfo{G: g.Key, Site: g.Site, Lib: g.Lib, Value: fmt.Sprint(r), Stack: string(stack), Step: s.Steps, At: time.Since(s.start)})
	if !s.aborted {
		s.aborted = true
		s.AbortWhy = "panic"
	}
}

type abortSignal struct{}

func (s *Sched) kickSched() {
	raceDisable()
	defer raceEnable()
	select {
	case s.kick <- struct{}{}:
	default:
	}
}

// park marks g and waits to be released by the scheduler.
func (s *Sched) park(g *G, st gstate, why string) {
	raceDisable()
	defer raceEnable()
	s.mu.Lock()
	g.state = st
	g.why = why
	s.mu.Unlock()
	s.kickSched()
	<-g.wake
}

func (s *Sched) isHot(site string) bool {
	if len(s.cfg.HotFiles) == 0 {
		return false
	}
	h, ok := s.hot[site]
	if ok {
		return h
	}
	f := site
	if i := strings.IndexByte(site, ':'); i >= 0 {
		f = site[:i]
	}
	for _, hf := range s.cfg.HotFiles {
		if f == hf {
			h = true
		}
	}
	s.hot[site] = h
	return h
}

// Yield is a scheduling point, placed before every synchronisation operation
// and after every lock release.
func Yield(site string) { yield(site, false) }

// yieldInternal is the scheduling point inside a sim primitive; it inherits
// the site of the goroutine's latest instrumented scheduling point, so that
// "hot file" preemption also covers lock acquire and release.
func yieldInternal(kind string) { yield(kind, true) }

func yield(site string, internal bool) {
	raceDisable()
	defer raceEnable()
	s := cur
	if s == nil {
		return
	}
	id := runtimeSimGoid()
	s.mu.Lock()
	g := s.byGoid[id]
	if g == nil {
		s.mu.Unlock()
		if internal {
			return
		}
		panic("simrt: Yield from unmanaged goroutine at " + site)
	}
	if internal {
		site = g.last + "+" + site
	} else {
		g.last = site
	}
	if g.state != stRunning {
		st := g.state
		s.mu.Unlock()
		panic(fmt.Sprintf("simrt: goroutine %s reached %s in state %d: a blocking operation was not followed by Resume", g.Key, site, st))
	}
	s.Steps++
	if s.aborted {
		s.mu.Unlock()
		s.parkForever(g)
		return
	}
	if s.Steps > s.cfg.MaxSteps {
		s.aborted = true
		s.AbortWhy = "steplimit"
		s.mu.Unlock()
		s.parkForever(g)
		return
	}
	sw := false
	switch s.cfg.Policy {
	case PolRandom:
		p := s.cfg.SwitchPM
		if s.isHot(site) {
			p = s.cfg.HotPM
		}
		sw = s.tapes[StrSch].Chance(p, 1000)
	case PolPCT:
		// strict priority scheduling: park at every scheduling point and let
		// the scheduler (which sees a settled world after synctest.Wait) pick the
		// highest-priority runnable goroutine. Looking at other goroutines'
		// states here would race with natively woken goroutines on their way
		// to Resume.
		if s.pctAt[s.Steps] {
			s.lowPrio++
			g.prio = 1000 - s.lowPrio
			s.Preempts++
		}
		sw = true
	}
	if sw && s.cfg.Policy != PolPCT {
		s.Preempts++
	}
	if s.cfg.Trace {
		s.tracef("y %s %s %v p%d", g.Key, site, sw, len(s.tapes[StrSch].Rec)/2)
	}
	s.mu.Unlock()
	if !sw {
		return
	}
	s.park(g, stRunnable, site)
}

func (s *Sched) parkForever(g *G) {
	raceDisable()
	defer raceEnable()
	s.mu.Lock()
	g.state = stBlocked
	g.why = "aborted"
	s.mu.Unlock()
	s.kickSched()
	select {}
}

// Resume is called right after an operation that may have blocked natively
// (channel operation, select, sleep). A goroutine that did block was woken by
// somebody else's action and must wait its turn before touching shared state.
func Resume() {
	raceDisable()
	defer raceEnable()
	s := cur
	if s == nil {
		return
	}
	id := runtimeSimGoid()
	s.mu.Lock()
	g := s.byGoid[id]
	if g == nil {
		s.mu.Unlock()
		panic("simrt: Resume from unmanaged goroutine")
	}
	if g.state == stRunning {
		s.mu.Unlock()
		return
	}
	s.mu.Unlock()
	s.park(g, stRunnable, "resume")
}

// block parks the calling goroutine until makeRunnable.
func (s *Sched) block(g *G, why string) {
	s.park(g, stBlocked, why)
}

func (s *Sched) makeRunnable(g *G) {
	raceDisable()
	defer raceEnable()
	s.mu.Lock()
	if g.state == stBlocked {
		g.state = stRunnable
	}
	s.mu.Unlock()
}

// AddInstant registers a simulated instant at which something interesting is
// due (a deadline, a ttl expiry, a sweep tick): targeted stalls jump there.
func AddInstant(t time.Time) {
	raceDisable()
	defer raceEnable()
	s := cur
	if s == nil {
		return
	}
	s.mu.Lock()
	s.instants = append(s.instants, t)
	s.mu.Unlock()
}

func (s *Sched) tracef(format string, a ...interface{}) {
	line := fmt.Sprintf("%6d %12d ", s.Steps, int64(time.Since(s.start))) + fmt.Sprintf(format, a...)
	s.trace = append(s.trace, line)
	if n := s.cfg.TraceTail; n > 0 && len(s.trace) > 2*n {
		s.trace = append(s.trace[:0], s.trace[len(s.trace)-n:]...)
	}
}

// Tracef adds a line to the run's trace (no decisions are drawn, no real clock read).
func Tracef(format string, a ...interface{}) {
	raceDisable()
	defer raceEnable()
	s := cur
	if s == nil || (!s.cfg.Trace && s.cfg.TraceTail == 0) {
		return
	}
	s.mu.Lock()
	s.tracef(format, a...)
	s.mu.Unlock()
}

// TraceLines returns the recorded trace (tail).
func (s *Sched) TraceLines() []string {
	raceDisable()
	defer raceEnable()
	s.mu.Lock()
	defer s.mu.Unlock()
	t := s.trace
	if n := s.cfg.TraceTail; n > 0 && len(t) > n {
		t = t[len(t)-n:]
	}
	return append([]string(nil), t...)
}

// Abort ends the run: no further goroutine is released.
func (s *Sched) Abort(why string) {
	raceDisable()
	defer raceEnable()
	s.mu.Lock()
	if !s.aborted {
		s.aborted = true
		s.AbortWhy = why
	}
	s.mu.Unlock()
	s.kickSched()
}

// Outcome of Run.
type Outcome struct {
	MainDone bool
	Aborted  bool
	AbortWhy string
	Leftover []Left // goroutines not finished when the run ended
	Deadlock bool   // main not done, nothing runnable, no timer within IdleQuit
	SimTime  time.Duration
}

// Left describes a goroutine that had not exited at the end of the run.
type Left struct {
	Key, Site, State, Why string
	Lib                   bool
}

var stateNames = [...]string{"running", "runnable", "native", "blocked", "done", "lagging"}

// Run starts main as the first managed goroutine and schedules until main has
// returned and every other managed goroutine is done or idle for IdleQuit.
func (s *Sched) Run(main func()) Outcome {
	mainDone := false
	raceDisable()
	s.mu.Lock()
	mg := s.newG("h/main", nil)
	s.mu.Unlock()
	raceEnable()
	go s.body(mg, func() {
		main()
		raceDisable()
		s.mu.Lock()
		mainDone = true
		s.mu.Unlock()
		raceEnable()
	})
	raceDisable()
	defer raceEnable()

	var out Outcome
	idle := time.NewTimer(time.Hour)
	idle.Stop()
	for {
		synctest.Wait()
		s.mu.Lock()
		if s.aborted {
			s.mu.Unlock()
			break
		}
		var runnable []*G
		alive, lagging := 0, 0
		for _, g := range s.order {
			switch g.state {
			case stRunning:
				g.state = stNative
				alive++
			case stRunnable:
				runnable = append(runnable, g)
				alive++
			case stNative, stBlocked:
				alive++
			case stLagging:
				alive++
				lagging++
			}
		}
		if alive == 0 {
			s.mu.Unlock()
			break
		}
		if time.Since(s.start) > s.cfg.MaxSim {
			s.aborted = true
			s.AbortWhy = "simtimelimit"
			s.mu.Unlock()
			break
		}
		if len(runnable) == 0 && lagging > 0 {
			// everybody else is blocked: time passes until the held-back goroutine is let go
			s.mu.Unlock()
			<-s.kick
			continue
		}
		if len(runnable) == 0 {
			s.mu.Unlock()
			idle.Reset(s.cfg.IdleQuit)
			select {
			case <-s.kick:
				idle.Stop()
				continue
			case <-idle.C:
			}
			// nothing happened for IdleQuit of simulated time
			s.mu.Lock()
			out.Deadlock = !mainDone
			s.mu.Unlock()
			break
		}
		// stall: let simulated time advance although goroutines are runnable
		if s.cfg.StallPM > 0 && s.tapes[StrSch].Chance(s.cfg.StallPM, 1000) {
			d := s.stallDuration()
			s.Stalls++
			s.StallTime += d
			if s.cfg.Trace {
				s.tracef("stall %v", d)
			}
			s.mu.Unlock()
			time.Sleep(d)
			continue
		}
		var g *G
		switch s.cfg.Policy {
		case PolPCT:
			sort.Slice(runnable, func(i, j int) bool {
				if runnable[i].prio != runnable[j].prio {
					return runnable[i].prio > runnable[j].prio
				}
				return runnable[i].Key < runnable[j].Key
			})
			g = runnable[0]
		default:
			sort.Slice(runnable, func(i, j int) bool { return runnable[i].Key < runnable[j].Key })
			g = runnable[s.tapes[StrSch].Draw(len(runnable))]
		}
		lagPM := s.cfg.LagPM
		if g.why == "resume" && s.cfg.LagWakePM > lagPM {
			lagPM = s.cfg.LagWakePM // woken by somebody else's action, and slow to get going
		}
		if g.Lib && lagPM > 0 && lagPM < 300 && s.instantWithin(4*s.cfg.Grid) {
			lagPM = 300 // something is due any moment now (a deadline, a ttl): being slow across it is the interesting case
		}
		if g.Lib && lagPM > 0 && s.tapes[StrSch].Chance(lagPM, 1000) {
			// a slow goroutine: it stays where it is for a while, the others go on
			d := s.stallDuration()
			if d > time.Second {
				// (a jump to a far-away instant is for global stalls, where nothing else
				// happens meanwhile; one goroutine held for minutes is not a schedule worth exploring)
				d = time.Duration(1+s.tapes[StrSch].Draw(4)) * s.cfg.Grid
			}
			g.state = stLagging
			s.Lags++
			now := time.Now()
			s.lagSpans = append(s.lagSpans, lagSpan{now, now.Add(d)})
			if s.cfg.Trace {
				s.tracef("lag %s @%s for %v", g.Key, g.why, d)
			}
			lg := g
			time.AfterFunc(d, func() {
				raceDisable()
				s.mu.Lock()
				if lg.state == stLagging {
					lg.state = stRunnable
				}
				s.mu.Unlock()
				raceEnable()
				s.kickSched()
			})
			s.mu.Unlock()
			continue
		}
		g.state = stRunning
		s.selOwner = g.goid
		if g != s.lastG {
			s.Switches++
			wh := fnv64(g.why)
			s.FP = splitmix(s.FP ^ g.kh ^ wh)
			if s.lastG != nil {
				s.SitePairs[splitmix(fnv64(s.lastG.why))^wh] = struct{}{}
			}
			s.lastG = g
		}
		if s.cfg.Trace {
			s.tracef("run %s @%s of %d p%d", g.Key, g.why, len(runnable), len(s.tapes[StrSch].Rec)/2)
		}
		s.mu.Unlock()
		select {
		case <-s.kick:
		default:
		}
		g.wake <- struct{}{}
	}
	s.mu.Lock()
	out.MainDone = mainDone
	out.Aborted = s.aborted
	out.AbortWhy = s.AbortWhy
	out.SimTime = time.Since(s.start)
	for _, g := range s.order {
		if g.state != stDone {
			out.Leftover = append(out.Leftover, Left{Key: g.Key, Site: g.Site, State: stateNames[g.state], Why: g.why, Lib: g.Lib})
		}
	}
	s.mu.Unlock()
	return out
}

type lagSpan struct{ start, end time.Time }

// Stalled returns how much injected slowness there has been so far: the global
// stalls plus, for every goroutine that was or is being held back, the part of
// its lag that has already elapsed. The difference between two readings is the
// injected slowness inside that window - what an oracle about elapsed time must
// allow for.
func (s *Sched) Stalled() time.Duration {
	raceDisable()
	defer raceEnable()
	s.mu.Lock()
	defer s.mu.Unlock()
	d := s.StallTime
	now := time.Now()
	for _, l := range s.lagSpans {
		switch {
		case !now.Before(l.end):
			d += l.end.Sub(l.start)
		case now.After(l.start):
			d += now.Sub(l.start)
		}
	}
	return d
}

// instantWithin: is a registered instant due within d from now?
func (s *Sched) instantWithin(d time.Duration) bool {
	now := time.Now()
	for _, in := range s.instants {
		if x := in.Sub(now); x >= 0 && x <= d {
			return true
		}
	}
	return false
}

func (s *Sched) stallDuration() time.Duration {
	// half the stalls are blind (1..4 grid ticks); the other half jump to just
	// past the next registered instant when there is one in the future.
	t := s.tapes[StrSch]
	if len(s.instants) > 0 && t.Chance(1, 2) {
		now := time.Now()
		var best time.Duration
		for _, in := range s.instants {
			if d := in.Sub(now); d >= 0 && (best == 0 || d < best) {
				best = d
			}
		}
		if best > 0 && best < 10*time.Minute {
			return best + time.Duration(t.Draw(2))*s.cfg.Grid
		}
	}
	return time.Duration(1+t.Draw(4)) * s.cfg.Grid
}

// Records returns the recorded decision vectors of this run.
func (s *Sched) Records() map[string][]uint32 {
	raceDisable()
	defer raceEnable()
	s.mu.Lock()
	defer s.mu.Unlock()
	m := map[string][]uint32{}
	for i := Stream(0); i < numStreams; i++ {
		m[StreamNames[i]] = s.tapes[i].Rec
	}
	return m
}

// Diverged sums replay divergences over all streams.
func (s *Sched) Diverged() int {
	raceDisable()
	defer raceEnable()
	n := 0
	for i := Stream(0); i < numStreams; i++ {
		n += s.tapes[i].Diverged
		if t := s.tapes[i]; t.replay != nil && 2*t.pos < len(t.replay) {
			n += (len(t.replay) - 2*t.pos) / 2 // unconsumed recorded decisions
		}
	}
	return n
}

// NumGoroutines reports how many managed goroutines were ever started.
func (s *Sched) NumGoroutines() int {
	raceDisable()
	defer raceEnable()
	s.mu.Lock()
	defer s.mu.Unlock()
	return len(s.order)
}
