package vsim

import (
	"context"
	"fmt"
	"net"
	"runtime"
	"sort"
	"strings"
	"time"

	opentracing "github.com/opentracing/opentracing-go"
	tchannel "github.com/uber/tchannel-go"
	"github.com/uber/tchannel-go/simrt"
)

// Violation is one oracle failure.
type Violation struct {
	Prop   string `json:"prop"`
	Rule   string `json:"rule"`
	Detail string `json:"detail"`
	Ev     int64  `json:"ev"`
	AtNs   int64  `json:"at_ns"`
}

// Event is one history entry.
type Event struct {
	Ev   int64
	At   time.Duration
	Kind string
	Text string
}

// World is everything of one run.
type World struct {
	Grid           time.Duration
	Net            *Net
	ev             int64
	Hist           []Event
	Nodes          []*Node
	Viol           []Violation
	Probes         map[string]int // "rare condition was hit" counters and other measured counts
	Evals          map[string]int // oracle evaluation counts
	Calls          []*CallRec
	callTag        map[string]*CallRec
	Family         string
	Sample         []string // human-readable description of the scenario (for evidence samples)
	NoFault        bool     // fault-free run class: relaxed oracles are off
	NoPoison       bool
	wireOr         *wireOracle
	QuiesceStarted bool
	cfg            RunSpec
	linkHook       func(l *Link)
	// PingSendFailed: some connection was given up because a ping/pong could not be queued
	PingSendFailed bool
	// mustLeave (C16): node/host:port pairs whose peer was dropped from its only list while connected
	mustLeave map[string]bool
	// PeriodicTraffic: the scenario has traffic that never ceases (health checks); settle periods are not extended
	PeriodicTraffic bool
	AllClosed       bool
	seenListed      map[string]bool
	corruptID       uint32
	corruptLink     *Link
	corruptDir      int
	corruptFrame    *TapFrame
	timingChecked   bool
	corruptPlanned  bool
	RawPeers        []*RawPeer
}

func newWorld(spec RunSpec) *World {
	w := &World{Grid: time.Millisecond, Probes: map[string]int{}, Evals: map[string]int{}, callTag: map[string]*CallRec{}, cfg: spec, mustLeave: map[string]bool{}}
	w.Net = newNet(w)
	w.wireOr = newWireOracle(w)
	return w
}

func (w *World) tick() int64 { w.ev++; return w.ev }

func (w *World) event(kind, format string, a ...interface{}) int64 {
	e := w.tick()
	txt := fmt.Sprintf(format, a...)
	w.Hist = append(w.Hist, Event{Ev: e, At: simrt.Elapsed(), Kind: kind, Text: txt})
	simrt.Tracef("E %s %s", kind, txt)
	return e
}

func (w *World) violate(prop, rule, format string, a ...interface{}) {
	d := fmt.Sprintf(format, a...)
	for _, v := range w.Viol {
		if v.Prop == prop && v.Rule == rule && v.Detail == d {
			return
		}
	}
	w.Viol = append(w.Viol, Violation{Prop: prop, Rule: rule, Detail: d, Ev: w.ev, AtNs: int64(simrt.Elapsed())})
	w.event("VIOLATION", "%s/%s: %s", prop, rule, d)
}

func (w *World) probe(name string) { w.Probes[name]++ }
func (w *World) eval(name string)  { w.Evals[name]++ }
func (w *World) describe(f string, a ...interface{}) {
	w.Sample = append(w.Sample, fmt.Sprintf(f, a...))
}

// ---- decision helpers (scenario stream) ----

func scn(n int) int               { return simrt.Draw(simrt.StrScn, n) }
func scnChance(num, den int) bool { return simrt.Chance(simrt.StrScn, num, den) }
func scnPick(xs ...int) int       { return xs[scn(len(xs))] }
func app(n int) int               { return simrt.Draw(simrt.StrApp, n) }

// ---- logger ----

type memLogger struct {
	w      *World
	node   string
	fields tchannel.LogFields
	counts *map[string]int
	msgs   *map[string]int
	n      *Node
}

func (l *memLogger) Enabled(level tchannel.LogLevel) bool { return level >= tchannel.LogLevelInfo }
func (l *memLogger) log(lv, msg string) {
	(*l.counts)[lv]++
	if lv == "I" && l.n != nil && msg == "Could not send error frame on closed connection." {
		// the library decided not to answer this id: its connection object is already in the
		// closed state (remembered for attribution of unanswered requests)
		for _, f := range l.fields {
			if f.Key == "id" {
				if id, ok := f.Value.(uint32); ok {
					l.n.ErrOnClosedConn[id]++
				}
			}
		}
	}
	if lv == "I" && msg == "Connection error." {
		for _, f := range l.fields {
			if f.Key == "site" && (f.Value == "send ping" || f.Value == "send pong") {
				// a ping or pong could not be queued (full send buffer): by design the
				// library then gives the connection up, with every call on it
				l.w.PingSendFailed = true
			}
		}
	}
	if lv == "W" && msg == "Attempted to delete non-existent relay item." {
		// two ways of ending one relayed call met (e.g. the caller's cancel frame and the
		// callee's last frame): the second finisher found the item gone
		l.w.probe("relay.two-finishers-met")
	}
	if lv != "I" && l.msgs != nil {
		(*l.msgs)[msg]++
	}
	if lv == "E" || lv == "W" || lv == "F" {
		simrt.Tracef("L %s %s %s %v", l.node, lv, msg, l.fieldStr())
	}
}
func (l *memLogger) fieldStr() string {
	var sb strings.Builder
	for _, f := range l.fields {
		if f.Key == "error" || f.Key == "id" || f.Key == "msgType" || f.Key == "connID" {
			fmt.Fprintf(&sb, "%s=%v ", f.Key, f.Value)
		}
	}
	return sb.String()
}
func (l *memLogger) Fatal(msg string)                       { l.log("F", msg) }
func (l *memLogger) Error(msg string)                       { l.log("E", msg) }
func (l *memLogger) Warn(msg string)                        { l.log("W", msg) }
func (l *memLogger) Infof(msg string, args ...interface{})  { l.log("I", msg) }
func (l *memLogger) Info(msg string)                        { l.log("I", msg) }
func (l *memLogger) Debugf(msg string, args ...interface{}) {}
func (l *memLogger) Debug(msg string)                       {}
func (l *memLogger) Fields() tchannel.LogFields             { return l.fields }
func (l *memLogger) WithFields(fs ...tchannel.LogField) tchannel.Logger {
	nf := make(tchannel.LogFields, 0, len(l.fields)+len(fs))
	nf = append(nf, l.fields...)
	nf = append(nf, fs...)
	return &memLogger{w: l.w, node: l.node, fields: nf, counts: l.counts, msgs: l.msgs, n: l.n}
}

// ---- tracking frame pool (C12) ----

type frameRec struct {
	state  int // 1 = handed out, 2 = released
	relPCs []uintptr
	getEv  int64
	// buf: the backing array of a poisoned frame, kept so that a write through a slice
	// somebody retained shows at the end of the run (the first keepPoisoned frames of a pool)
	buf []byte
}

const keepPoisoned = 1024

// TrackPool is installed through ConnectionOptions.FramePool on every node.
type TrackPool struct {
	w        *World
	node     string
	frames   map[*tchannel.Frame]*frameRec
	Gets     int
	Releases int
	PayCap   int // if >0, frames are handed out with Payload re-sliced to this length
	// Reuse: hand released frames out again, LIFO and without clearing them, like a real
	// pool does (stale bytes of an earlier message stay in the buffer). Such frames are
	// not poisoned; double releases are still detected.
	Reuse bool
	free  []*tchannel.Frame
	kept  int
	hb    uint64 // race builds: release -> get edge, as a sync.Pool gives
}

func newTrackPool(w *World, node string) *TrackPool {
	return &TrackPool{w: w, node: node, frames: map[*tchannel.Frame]*frameRec{}}
}

func (p *TrackPool) Get() *tchannel.Frame {
	if p.Reuse && len(p.free) > 0 {
		simrt.HBAcquire(&p.hb)
		f := p.free[len(p.free)-1]
		p.free = p.free[:len(p.free)-1]
		p.frames[f].state = 1
		p.Gets++
		return f
	}
	f := tchannel.NewFrame(tchannel.MaxFramePayloadSize)
	if p.PayCap > 0 && p.PayCap < len(f.Payload) {
		f.Payload = f.Payload[:p.PayCap]
	}
	p.frames[f] = &frameRec{state: 1, getEv: p.w.ev}
	p.Gets++
	return f
}

func (p *TrackPool) Release(f *tchannel.Frame) {
	p.w.eval("C12.release")
	r := p.frames[f]
	if r == nil {
		p.w.violate("C12", "foreign-release", "node %s released a frame that did not come from its pool\n%s", p.node, stackString(callers()))
		return
	}
	if r.state == 2 {
		p.w.violate("C12", "double-release", "node %s handed the same frame back twice\nfirst release:\n%s\nsecond release:\n%s", p.node, stackString(r.relPCs), stackString(callers()))
		if p.Reuse {
			// like a real free list: the frame is now in it twice and will be handed to two users
			simrt.HBRelease(&p.hb)
			p.free = append(p.free, f)
		}
		return
	}
	r.state = 2
	r.relPCs = callers()
	p.Releases++
	if p.Reuse {
		simrt.HBRelease(&p.hb)
		p.free = append(p.free, f)
		return
	}
	if !p.w.NoPoison {
		if p.kept < keepPoisoned {
			p.kept++
			r.buf = tchannel.VerifFrameBytes(f)
		}
		tchannel.VerifPoisonFrame(f)
	}
}

// WrittenAfterRelease looks at the frames this pool poisoned: every byte of a released frame
// must still carry the poison pattern at the end of the run. A different byte was written
// through a buffer, chunk or slice somebody kept after handing the frame back.
func (p *TrackPool) WrittenAfterRelease() []string {
	var out []string
	for _, r := range p.frames {
		if r.state != 2 || r.buf == nil {
			continue
		}
		for i, b := range r.buf {
			if b != 0xA5 {
				out = append(out, fmt.Sprintf("node %s: byte %d of a frame was written (%#x) after the frame had been released\nreleased at:\n%s", p.node, i, b, stackString(r.relPCs)))
				break
			}
		}
	}
	sort.Strings(out)
	return out
}

// Outstanding returns the number of frames handed out and never released.
func (p *TrackPool) Outstanding() int { return p.Gets - p.Releases }

func callers() []uintptr {
	pcs := make([]uintptr, 24)
	n := runtime.Callers(3, pcs)
	return pcs[:n]
}

func stackString(pcs []uintptr) string {
	var sb strings.Builder
	fr := runtime.CallersFrames(pcs)
	for {
		f, more := fr.Next()
		if f.Function != "" && !strings.HasPrefix(f.Function, "runtime.") {
			file := f.File
			if i := strings.LastIndex(file, "/lib/"); i >= 0 {
				file = file[i+5:]
			}
			fmt.Fprintf(&sb, "    %s (%s:%d)\n", shortFunc(f.Function), file, f.Line)
		}
		if !more {
			break
		}
	}
	return sb.String()
}

func shortFunc(s string) string {
	s = strings.TrimPrefix(s, "github.com/uber/tchannel-go")
	return strings.TrimPrefix(s, ".")
}

// ---- nodes ----

// NodeOpts are the per-node configuration knobs of a scenario.
type NodeOpts struct {
	Name                  string
	Service               string
	Host                  string // ip
	Port                  int    // 0 = client only (no listener)
	Conn                  tchannel.ConnectionOptions
	Relay                 tchannel.RelayHost
	RelayMaxTimeout       time.Duration
	RelayMaxTombs         uint64
	RelayTimerVerify      bool
	RelayLocal            []string
	MaxIdle, IdleInterval time.Duration
	PayCap                int
	PoolReuse             bool
	OnPeerStatus          func(*tchannel.Peer)
	Handler               tchannel.Handler // optional channel-level handler override
	Tracer                opentracing.Tracer
}

// Node is one real channel of the library under test.
type Node struct {
	W        *World
	Name     string
	Host     string
	HostPort string
	Service  string
	Ch       *tchannel.Channel
	L        *Listener
	Pool     *TrackPool
	LogCount map[string]int
	LogMsgs  map[string]int // warn/error messages seen
	// ErrOnClosedConn: message ids for which the library logged that it could not send an error
	// frame because the connection was already closed
	ErrOnClosedConn                map[uint32]int
	Opts                           NodeOpts
	States                         []tchannel.ChannelState
	closeCalledEv, closeReturnedEv int64
	closedSeen                     int
	samples                        []stSample
	Dead                           bool
}

func (w *World) addNode(o NodeOpts) *Node {
	n := &Node{W: w, Name: o.Name, Host: o.Host, Service: o.Service, Opts: o, LogCount: map[string]int{}, LogMsgs: map[string]int{}, ErrOnClosedConn: map[uint32]int{}}
	n.Pool = newTrackPool(w, o.Name)
	n.Pool.PayCap = o.PayCap
	n.Pool.Reuse = o.PoolReuse
	co := o.Conn
	co.FramePool = n.Pool
	host := o.Host
	opts := &tchannel.ChannelOptions{
		ProcessName:              o.Name + "-proc",
		DefaultConnectionOptions: co,
		Logger:                   &memLogger{w: w, node: o.Name, counts: &n.LogCount, msgs: &n.LogMsgs, n: n},
		RelayHost:                o.Relay,
		RelayMaxTimeout:          o.RelayMaxTimeout,
		RelayMaxTombs:            o.RelayMaxTombs,
		RelayTimerVerification:   o.RelayTimerVerify,
		RelayLocalHandlers:       o.RelayLocal,
		MaxIdleTime:              o.MaxIdle,
		IdleCheckInterval:        o.IdleInterval,
		OnPeerStatusChanged:      o.OnPeerStatus,
		Handler:                  o.Handler,
		Tracer:                   o.Tracer,
		Dialer: func(ctx context.Context, network, hostPort string) (net.Conn, error) {
			c, err := w.Net.Dial(ctx, host, hostPort)
			if c != nil {
				c.(*Conn).Owner = o.Name
			}
			return c, err
		},
	}
	ch, err := tchannel.NewChannel(o.Service, opts)
	if err != nil {
		panic("harness: NewChannel: " + err.Error())
	}
	n.Ch = ch
	if o.Port != 0 {
		n.HostPort = fmt.Sprintf("%s:%d", o.Host, o.Port)
		l, err := w.Net.Listen(n.HostPort)
		if err != nil {
			panic("harness: listen: " + err.Error())
		}
		n.L = l
		if err := ch.Serve(&ownedListener{Listener: l, owner: o.Name}); err != nil {
			panic("harness: Serve: " + err.Error())
		}
	}
	w.Nodes = append(w.Nodes, n)
	n.sampleState()
	return n
}

type ownedListener struct {
	*Listener
	owner string
}

func (l *ownedListener) Accept() (net.Conn, error) {
	c, err := l.Listener.Accept()
	if c != nil {
		c.(*Conn).Owner = l.owner
	}
	return c, err
}

// sampleState records the channel state and checks monotonicity (C07 rule 5).
// State() contains scheduling points, so a sample is an interval [call, return]
// whose linearization point lies somewhere inside: only a sample that RETURNED
// before another one was CALLED is ordered before it.
func (n *Node) sampleState() tchannel.ChannelState {
	callEv := n.W.tick()
	st := n.Ch.State()
	retEv := n.W.tick()
	n.W.eval("C07.state-sample")
	for _, p := range n.samples {
		if p.ret < callEv && p.st > st {
			n.W.violate("C07", "state-backwards", "channel %s reported state %v (sample called at #%d) after an earlier sample had already returned %v (at #%d)", n.Name, st, callEv, p.st, p.ret)
			break
		}
	}
	// keep, per distinct state, the earliest return
	found := false
	for _, p := range n.samples {
		if p.st == st {
			found = true
		}
	}
	if !found {
		n.samples = append(n.samples, stSample{ret: retEv, st: st})
		n.States = append(n.States, st)
		n.W.event("state", "%s %v", n.Name, st)
	}
	return st
}

type stSample struct {
	ret int64
	st  tchannel.ChannelState
}

// Close calls Channel.Close and records when.
func (n *Node) Close() {
	if n.closeCalledEv == 0 {
		n.closeCalledEv = n.W.event("close-called", "%s", n.Name)
	} else {
		n.W.event("close-called-again", "%s", n.Name)
	}
	n.sampleState()
	n.Ch.Close()
	if n.closeReturnedEv == 0 {
		n.closeReturnedEv = n.W.event("close-returned", "%s", n.Name)
	}
	n.sampleState()
}

func (w *World) node(name string) *Node {
	for _, n := range w.Nodes {
		if n.Name == name {
			return n
		}
	}
	return nil
}

// payload builds a position- and tag-dependent byte string, so that any
// swap, shift, truncation or foreign data is visible.
func payload(tag string, which int, n int) []byte {
	b := make([]byte, n)
	h := fnv(tag) ^ uint64(which)*0x9e3779b97f4a7c15
	x := h | 1
	for i := range b {
		x ^= x << 13
		x ^= x >> 7
		x ^= x << 17
		b[i] = byte(x >> 24)
	}
	return b
}

func fnv(s string) uint64 {
	h := uint64(14695981039346656037)
	for i := 0; i < len(s); i++ {
		h ^= uint64(s[i])
		h *= 1099511628211
	}
	return h
}

func respond(req []byte) []byte {
	out := make([]byte, len(req))
	for i, c := range req {
		out[i] = c ^ 0xff
	}
	return out
}

// sortedStrings returns the keys of a string set in order.
func sortedKeys[V any](m map[string]V) []string {
	ks := make([]string, 0, len(m))
	for k := range m {
		ks = append(ks, k)
	}
	sort.Strings(ks)
	return ks
}
