package runtime

import _ "unsafe"

// simSelectHook, when non-nil, supplies the random numbers used to order
// select cases for goroutines inside a synctest bubble.
var simSelectHook func(n uint32) uint32

//go:linkname simSetSelectHook
func simSetSelectHook(f func(n uint32) uint32) { simSelectHook = f }

func simSelectRandn(n uint32) uint32 {
	if n <= 1 {
		return 0
	}
	if h := simSelectHook; h != nil && getg().bubble != nil {
		return h(n) % n
	}
	return cheaprandn(n)
}

// simGoid returns the id of the calling goroutine.
//
//go:linkname simGoid
func simGoid() uint64 { return getg().goid }
