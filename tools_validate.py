#!/usr/bin/env python3
# validates MANIFEST.json and evidence/*.json against the schemas (run with python3-vt)
import json,sys,glob,jsonschema
ms=json.load(open('/root/.vp/MANIFEST.schema.json')); es=json.load(open('/root/.vp/EVIDENCE.schema.json'))
m=json.load(open('/verif/MANIFEST.json')); jsonschema.validate(m,ms); print("MANIFEST ok:",len(m['checks']),"checks,",len(m.get('not_applicable',[])),"n/a")
ids=[l and json.loads(l)['id'] for l in open('/verif/properties.jsonl') if l.strip()]
claimed=[c['property_id'] for c in m['checks']]; na=[x['property_id'] for x in m.get('not_applicable',[])]
for i in ids:
    if i not in claimed and i not in na: print("  NOT LISTED:",i)
for f in sorted(glob.glob('/verif/evidence/*.json')):
    try: jsonschema.validate(json.load(open(f)),es); print("ok",f)
    except Exception as e: print("INVALID",f,str(e)[:200])
