package vsim

import (
	"context"
	"fmt"
	"strconv"
	"strings"
	"time"

	tchannel "github.com/uber/tchannel-go"
	"vsim/wire"
)

func init() { families["frag"] = famFrag }

// fragHandler serves every method; the method name carries the read pattern
// and the argument lengths: "e<rp>-<len2>-<len3>".
type fragHandler struct {
	w *World
	n *Node
}

func (h *fragHandler) Handle(ctx context.Context, call *tchannel.InboundCall) {
	w := h.w
	parts := strings.Split(call.MethodString(), "-")
	rp, rp3, l2, l3 := 0, 0, 0, 0
	if len(parts) == 3 && strings.HasPrefix(parts[0], "e") && len(parts[0]) == 3 {
		rp = int(parts[0][1] - '0')  // read pattern for arg2
		rp3 = int(parts[0][2] - '0') // read pattern for arg3 (independent: e.g. exact arg2, to-EOF arg3)
		l2, _ = strconv.Atoi(parts[1])
		l3, _ = strconv.Atoi(parts[2])
	}
	enterEv := w.tick()
	a2, err := readArg(call.Arg2Reader())(rp, l2)
	var rec *CallRec
	var cmd map[string]string
	var pad []byte
	if len(a2) > 0 {
		cmd, pad = parseCmd(a2)
		if cmd != nil {
			rec = w.callTag[cmd["tag"]]
		}
	}
	obs := &HandlerObs{}
	if rec != nil {
		obs = &rec.H
	}
	obs.Entries++
	obs.Entered = true
	obs.EnterEv = enterEv
	obs.Node = h.n.Name
	obs.Read2 = len(a2)
	tag := "?"
	if cmd != nil {
		tag = cmd["tag"]
	}
	w.event("handler-enter", "%s on %s rp=%d err=%v", tag, h.n.Name, rp, errStr(err))
	defer func() {
		obs.ExitEv = w.event("handler-exit", "%s on %s resperr=%v", tag, h.n.Name, errStr(obs.RespErr))
	}()
	if err != nil {
		obs.ReadErr = err
		if rp == 1 {
			w.probe("C01.exact-read-error")
		}
		return
	}
	a3, err := readArg(call.Arg3Reader())(rp3, l3)
	obs.Read3 = len(a3)
	if err != nil {
		obs.ReadErr = err
		if rp == 1 {
			w.probe("C01.exact-read-error")
		}
		return
	}
	obs.ArgsRead = true
	if rec == nil {
		call.Response().SendSystemError(tchannel.NewSystemError(tchannel.ErrCodeBadRequest, "unknown tag"))
		return
	}
	obs.Arg2OK = string(a2) == string(rec.Req2Dest)
	obs.Arg3OK = string(a3) == string(rec.Req3)
	w.eval("C01.request-match")
	if !obs.Arg2OK || !obs.Arg3OK {
		d := fmt.Sprintf("handler on %s (read pattern %d) received wrong arguments for call %s as a complete request: arg2 %s arg3 %s", h.n.Name, rp, tag, diffDesc(a2, rec.Req2Dest), diffDesc(a3, rec.Req3))
		w.violate("C01", "wrong-request", "%s", d)
		w.violate("C04", "wrong-request", "%s", d)
		if rec.CorruptReq {
			w.violate("C02", "corruption-undetected", "%s", d)
		}
	} else if rec.CorruptReq {
		w.violate("C02", "corruption-undetected", "call %s: a byte of the request was altered in transit, yet the handler read both arguments to the end without error", tag)
	}
	rs2, _ := strconv.Atoi(cmd["rs2"])
	rs3, _ := strconv.Atoi(cmd["rs3"])
	r2, r3 := expectedResponse(tag, rs2, rs3, pad, a3)
	wp, _ := strconv.Atoi(cmd["code"]) // the frag family carries the response write pattern here
	resp := call.Response()
	if err := writeArg(resp.Arg2Writer())(r2, wp); err != nil {
		obs.RespErr = err
		return
	}
	if err := writeArg(resp.Arg3Writer())(r3, wp); err != nil {
		obs.RespErr = err
	}
}

// famFrag: one client, one server (optionally through a relay), drawn fragment
// capacity, argument lengths placed on and around fragment boundaries, all
// write/flush and read patterns, all checksum types; in the corrupting class a
// single byte of a chunk or of a checksum is altered in transit. Serves C01,
// C02 (and C06, C12 through the common oracles).
func famFrag(w *World) {
	w.Grid = time.Millisecond
	corrupt := scnChance(1, 3)
	w.NoFault = !corrupt
	w.drawSchedule(false)
	w.linkDefaults()
	cs := checksumTypes[scn(len(checksumTypes))]
	if corrupt {
		cs = checksumTypes[scn(2)] // crc32 / crc32c (farmhash is a null checksum in this library; the property is about the two CRCs)
	}
	caps := []int{0, 0, 64, 100, 200, 257, 1000, 4096, 30000}
	capc, caps2 := caps[scn(len(caps))], caps[scn(len(caps))]
	if capc > 0 && capc < 200 {
		capc += scn(50)
	}
	// a third of the fault-free runs are "plain": capacities that hold the headers and no
	// early-closing consumer, so that every call is REQUIRED to succeed
	plainClass := !corrupt && scnChance(1, 3)
	if plainClass {
		if capc > 0 && capc < 257 {
			capc = 257
		}
		if caps2 > 0 && caps2 < 257 {
			caps2 = 257
		}
	}
	viaRelay := scnChance(1, 3)
	co := tchannel.ConnectionOptions{ChecksumType: cs}
	fh := &fragHandler{w: w}
	srv := w.addNode(NodeOpts{Name: "s0", Service: "svc0", Host: "10.0.2.1", Port: 5000, Conn: co, PayCap: caps2, Handler: fh})
	fh.n = srv
	target := srv.HostPort
	via := "direct"
	if viaRelay {
		spy := &SpyRelayHost{w: w, name: "r0"}
		rn := w.addNode(NodeOpts{Name: "r0", Service: "relay", Host: "10.0.1.1", Port: 4500, Conn: co, Relay: spy})
		spy.Add(srv.Service, srv.HostPort)
		target = rn.HostPort
		via = "relay x1"
	}
	cli := w.addNode(NodeOpts{Name: "c0", Service: "client0", Host: "10.0.3.1", Conn: co, PayCap: capc})
	w.describe("frag checksum=%v clientcap=%d servercap=%d via=%s corrupt=%v", cs, capc, caps2, via, corrupt)

	frameMax := func(c int) int {
		if c <= 0 || c > tchannel.MaxFramePayloadSize {
			c = tchannel.MaxFramePayloadSize
		}
		return c + wire.HeaderSize
	}
	csz := 4
	if cs == tchannel.ChecksumTypeNone {
		csz = 0
	}
	// biasLen picks an argument length that ends d bytes before (or on) a
	// fragment boundary, given the room left in the current frame and the room
	// of every following frame.
	biasLen := func(firstRoom, contRoom int) int {
		switch scn(8) {
		case 0:
			return 0
		case 1:
			return 1 + scn(20)
		case 2:
			return scn(3000)
		default:
			k := scn(4)
			if contRoom > 20000 {
				k = scn(3)
			}
			n := firstRoom + k*contRoom - scn(5)
			if scnChance(1, 6) {
				n += 1 + scn(3)
			}
			if n < 0 {
				n = 0
			}
			return n
		}
	}
	ncalls := 1 + scn(4)
	if capc > 0 && capc < 300 {
		ncalls = 1 + scn(2)
	}
	for i := 0; i < ncalls; i++ {
		tag := fmt.Sprintf("c%d", len(w.Calls)+1)
		rp, wp := scn(3), scn(4)
		crp, hwp := scn(3), scn(4)
		rp3, crp3 := rp, crp
		if scnChance(1, 2) {
			rp3, crp3 = scn(3), scn(3) // each argument is read its own way
		}
		if plainClass {
			for _, p := range []*int{&rp, &crp, &rp3, &crp3} {
				if *p == 1 {
					*p = 2
				}
			}
		}
		// sizes: the request header of this call, as the independent codec lays it out
		cmdProbe := CallSpec{Tag: tag, Mode: "echo", Code: hwp, Rs2: -1, Rs3: -1}
		cmdLen := len((&CallRec{Spec: cmdProbe}).cmd()) + 1
		fm := frameMax(capc)
		contRoom := fm - (wire.HeaderSize + 1 + 1 + csz) - 2
		// header of the first request frame: flags1 ttl4 span25 service~1 nh1 headers csumtype1 csum
		hdr := wire.HeaderSize + 1 + 4 + 25 + 1 + len(srv.Service) + 1 + (1 + 2 + 1 + len(cli.Service)) + (1 + 2 + 1 + 3) + 1 + csz
		methodGuess := 13
		firstRoom2 := fm - hdr - (2 + methodGuess) - 2 - cmdLen
		pad2 := biasLen(firstRoom2, contRoom)
		if capc > 0 && capc < 300 && pad2 > 6000 {
			pad2 = 6000 - scn(400)
		}
		rem := firstRoom2 - pad2
		for rem < 0 {
			rem += contRoom
		}
		len3 := biasLen(rem-2, contRoom)
		maxB := 200000
		if capc > 0 && capc < 300 {
			maxB = 8000
		} else if capc > 0 && capc < 5000 {
			maxB = 60000
		}
		if len3 > maxB {
			len3 = maxB - scn(100)
		}
		s := CallSpec{Tag: tag, From: cli, To: target, Service: srv.Service, Via: via, Timeout: 30 * time.Second,
			Pad2: pad2, Len3: len3, Rs2: -1, Rs3: -1, WritePat: wp, ReadPat: crp, ReadPat3: crp3 + 1, Code: hwp}
		if scnChance(1, 2) {
			// response sizes around the response's own fragment boundaries
			fr := frameMax(caps2)
			rhdr := wire.HeaderSize + 1 + 1 + 25 + 1 + (1 + 2 + 1 + 3) + 1 + csz + 2 // + empty arg1 chunk
			rfirst := fr - rhdr - 2 - (3 + len(tag))
			rcont := fr - (wire.HeaderSize + 1 + 1 + csz) - 2
			s.Rs2 = biasLen(rfirst, rcont)
			if caps2 > 0 && caps2 < 300 && s.Rs2 > 6000 {
				s.Rs2 = 6000 - scn(300)
			}
			rr := rfirst - s.Rs2
			for rr < 0 {
				rr += rcont
			}
			s.Rs3 = biasLen(rr-2, rcont)
			mr := 200000
			if caps2 > 0 && caps2 < 300 {
				mr = 8000
			} else if caps2 > 0 && caps2 < 5000 {
				mr = 60000
			}
			if s.Rs3 > mr {
				s.Rs3 = mr - scn(100)
			}
		}
		r := w.newCall(s)
		r.Spec.Method = fmt.Sprintf("e%d%d-%d-%d", rp, rp3, len(r.Req2), len(r.Req3))
		w.describe("call %s a2=%d a3=%d rs=%d/%d wp=%d rp(server)=%d/%d rp(client)=%d/%d wp(server)=%d method=%s", tag, len(r.Req2), len3, s.Rs2, s.Rs3, wp, rp, rp3, crp, crp3, hwp, r.Spec.Method)
	}
	if corrupt {
		w.corruptPlanned = true
		w.planCorruption()
	}
	// In a run without any fault, with frame capacities that can hold the message headers and
	// no consumer closing an argument early (the pattern that may legitimately end in an
	// error), every call must simply succeed - whatever the write, flush and read patterns.
	plain := w.NoFault && (capc == 0 || capc >= 257) && (caps2 == 0 || caps2 >= 257)
	for _, r := range w.Calls {
		var a, b, c, d int
		fmt.Sscanf(r.Spec.Method, "e%1d%1d-", &a, &b)
		c, d = r.Spec.ReadPat, r.Spec.ReadPat3-1
		if a == 1 || b == 1 || c == 1 || d == 1 {
			plain = false
		}
	}
	for _, r := range w.Calls {
		w.Call(r)
		if plain {
			w.eval("C01.plain-call-succeeds")
			slow := false
			for _, n := range w.Nodes {
				if n.LogMsgs["Dropping call due to slow connection."] > 0 {
					slow = true // a relay's send buffer (512 frames) overflowed under a burst of tiny frames: dropped by design
				}
			}
			if r.Err != nil && r.StallIn == 0 && !slow {
				w.violate("C01", "call-failed-without-fault", "call %s (%s) failed with %s in a run without faults, with frame capacities %d/%d and every argument read to its end: write pattern %d (client) / %d (server)",
					r.Spec.Tag, r.Spec.Via, errStr(r.Err), capc, caps2, r.Spec.WritePat, r.Spec.Code)
			}
		}
		if r.CorruptRes && r.Err == nil {
			w.violate("C02", "corruption-undetected", "call %s: a byte of the response was altered in transit, yet the caller read the response to the end without error", r.Spec.Tag)
		}
		if r.Err != nil && r.Spec.ReadPat == 1 {
			w.probe("C01.exact-read-error")
		}
		w.checkCorruptionTiming(r)
	}
	w.checkBoundaryProbes()
	w.quiesce(35*time.Second, true)
}

// planCorruption arms one net.corrupt fault on a chunk byte or a checksum byte
// of a drawn call frame (first / middle / last fragment, request or response).
func (w *World) planCorruption() {
	whichCall := scn(len(w.Calls))
	onResp := scnChance(1, 2)
	fragSel := scn(4) // 0 first, 1 any middle, 2 last, 3 a fragment that carries no argument bytes at all
	field := scn(4)   // 0 chunk data, 1 checksum byte, 2 chunk data near the end, 3 the checksum TYPE of a later fragment
	mode := scn(3)
	if field == 3 {
		// "the checksum type changes mid-message": the type byte of a continuation fragment
		// becomes another type of the same size, the frame stays well-formed
		mode = 3
		if fragSel == 0 {
			fragSel = 1 + scn(2)
		}
	}
	mask := byte(1 << uint(scn(8)))
	target := w.Calls[whichCall]
	armed := false
	seen := 0
	sel := func(tf *TapFrame) int {
		f := tf.F
		if armed || tf.Err != nil || !f.IsCall() {
			return -1
		}
		isRes := f.Type == wire.TCallRes || f.Type == wire.TCallResCont
		if isRes != onResp {
			return -1
		}
		// does this frame belong to the target call? first frames carry the tag
		first := f.Type == wire.TCallReq || f.Type == wire.TCallRes
		if first {
			ok := false
			for _, c := range f.Chunks {
				if strings.Contains(string(c[:min(len(c), 200)]), "tag="+target.Spec.Tag+";") || strings.HasPrefix(string(c), "r;"+target.Spec.Tag+"\n") {
					ok = true
				}
			}
			if !ok {
				return -1
			}
			seen = 1
			w.corruptID, w.corruptLink, w.corruptDir = f.ID, tf.Conn, tf.Dir
		} else {
			if seen == 0 || f.ID != w.corruptID || tf.Conn != w.corruptLink || tf.Dir != w.corruptDir {
				return -1
			}
			seen++
		}
		switch fragSel {
		case 0:
			if !first {
				return -1
			}
		case 1:
			if first || !f.More() {
				return -1
			}
		case 2:
			if f.More() {
				return -1
			}
		case 3:
			// only its checksum field can be altered: nothing else in it belongs to the arguments
			total := 0
			for ci, c := range f.Chunks {
				if !(first && ci == 0) {
					total += len(c)
				}
			}
			if total != 0 || f.CsumOff <= 0 {
				return -1
			}
		}
		// pick the byte
		off := -1
		if fragSel == 3 {
			off = f.CsumOff + scn(4)
		}
		switch field {
		case 1:
			if f.CsumOff > 0 {
				off = f.CsumOff + scn(4)
			}
		case 3:
			if f.CsumOff > 0 && !first {
				off = f.CsumOff - 1
			}
		}
		if off < 0 {
			// a data byte of a non-empty chunk (skip arg1 of first frames: it selects the handler)
			pos := f.ArgOff
			for ci, c := range f.Chunks {
				if len(c) > 0 && !(first && ci == 0) {
					if field == 2 {
						off = pos + 2 + len(c) - 1 - scn(min(len(c), 3))
					} else {
						off = pos + 2 + scn(len(c))
					}
				}
				pos += 2 + len(c)
			}
		}
		if off < 0 {
			return -1
		}
		armed = true
		w.event("corrupt-plan", "frame %s csumoff=%d argoff=%d off=%d tfoff=%d", f, f.CsumOff, f.ArgOff, off, tf.Off)
		w.corruptFrame = tf
		if onResp {
			target.CorruptRes = true
		} else {
			target.CorruptReq = true
		}
		w.probe(fmt.Sprintf("C02.corrupt.%s.%s", []string{"first", "middle", "last", "empty"}[fragSel], []string{"chunk", "checksum", "chunk-end", "checksum-type"}[field]))
		return off
	}
	prev := w.linkHook
	w.linkHook = func(l *Link) {
		if prev != nil {
			prev(l)
		}
		for d := 0; d < 2; d++ {
			l.AddFault(d, &Fault{Kind: FCorrupt, Off: -1, Mode: mode, Mask: mask, Sel: sel, Desc: fmt.Sprintf("call %s resp=%v frag=%d field=%d", target.Spec.Tag, onResp, fragSel, field)})
		}
	}
	w.describe("corrupt call=%s response=%v fragment=%d field=%d mode=%d mask=%#x", target.Spec.Tag, onResp, fragSel, field, mode, mask)
}

// checkCorruptionTiming: the receiver must fail no later than the end of the
// corrupted fragment, i.e. it never hands the application more argument bytes
// than the fragments BEFORE the corrupted one carried.
func (w *World) checkCorruptionTiming(r *CallRec) {
	tf := w.corruptFrame
	if tf == nil || !(r.CorruptReq || r.CorruptRes) || w.timingChecked {
		return
	}
	w.timingChecked = true
	// argument bytes (arg2+arg3) carried by earlier fragments of that message
	before := 0
	argi := 0
	for _, x := range tf.Conn.Frames[tf.Dir] {
		if x.Seq >= tf.Seq {
			break
		}
		if x.F == nil || x.Err != nil || !x.F.IsCall() || x.F.ID != tf.F.ID {
			continue
		}
		if (x.F.Type == wire.TCallRes || x.F.Type == wire.TCallResCont) != (tf.F.Type == wire.TCallRes || tf.F.Type == wire.TCallResCont) {
			continue
		}
		for ci, c := range x.F.Chunks {
			if ci > 0 {
				argi++
			}
			if argi >= 1 {
				before += len(c)
			}
		}
	}
	w.eval("C02.detection-timing")
	got := 0
	if r.CorruptReq {
		if !r.H.Entered {
			return
		}
		got = r.H.Read2 + r.H.Read3
	} else {
		got = r.Read2 + r.Read3
	}
	if got > before+0 {
		// bytes of the corrupted fragment itself (or later) reached the application
		end := before
		for ci, c := range tf.F.Chunks {
			_ = ci
			end += len(c)
		}
		if got > end {
			w.violate("C02", "corruption-detected-late", "call %s: the corrupted fragment ends after %d argument bytes, but the reader was handed %d bytes before failing", r.Spec.Tag, end, got)
		}
	}
}

// checkBoundaryProbes counts, from the tap, how often an argument ended 0..3
// bytes before the end of a frame (the rare conditions C01 is about).
func (w *World) checkBoundaryProbes() {
	for _, l := range w.Net.Links {
		for d := 0; d < 2; d++ {
			for _, tf := range l.Frames[d] {
				if tf.Err != nil || tf.F == nil || !tf.F.IsCall() || !tf.F.More() {
					continue
				}
				w.probe("C01.fragments-with-more")
				if n := len(tf.F.Chunks); n > 0 && len(tf.F.Chunks[n-1]) == 0 {
					w.probe("C01.frame-ends-with-empty-chunk")
				}
			}
			for i, tf := range l.Frames[d] {
				if tf.Err != nil || tf.F == nil || !tf.F.IsCall() || i == 0 {
					continue
				}
				if (tf.F.Type == wire.TCallReqCont || tf.F.Type == wire.TCallResCont) && len(tf.F.Chunks) > 0 && len(tf.F.Chunks[0]) == 0 {
					w.probe("C01.continuation-starts-with-empty-chunk(arg ended on boundary)")
				}
			}
		}
	}
}
