package vsim

import (
	"context"
	"fmt"
	"strings"
	"time"

	tchannel "github.com/uber/tchannel-go"
	"vsim/wire"
)

func init() { families["relay"] = famRelay }

// relayTopo builds clients -> R1 [-> R2] -> servers.
type relayTopo struct {
	clients, servers, relays []*Node
	spies                    []*SpyRelayHost
}

func (w *World) buildRelayTopo(nc, ns, hops int, relayConn func() tchannel.ConnectionOptions, relayOpts func(o *NodeOpts)) *relayTopo {
	return w.buildRelayTopoConn(nc, ns, hops, w.connOpts, relayConn, relayOpts)
}

func (w *World) buildRelayTopoConn(nc, ns, hops int, endConn, relayConn func() tchannel.ConnectionOptions, relayOpts func(o *NodeOpts)) *relayTopo {
	t := &relayTopo{}
	for i := 0; i < ns; i++ {
		n := w.addNode(NodeOpts{Name: fmt.Sprintf("s%d", i), Service: fmt.Sprintf("svc%d", i), Host: fmt.Sprintf("10.0.2.%d", i+1), Port: 5000 + i, Conn: endConn()})
		n.Ch.Register(&echoHandler{w: w, n: n}, "echo")
		t.servers = append(t.servers, n)
	}
	for h := hops - 1; h >= 0; h-- {
		spy := &SpyRelayHost{w: w, name: fmt.Sprintf("r%d", h)}
		o := NodeOpts{Name: spy.name, Service: "relay", Host: fmt.Sprintf("10.0.1.%d", h+1), Port: 4500 + h, Conn: relayConn(), Relay: spy}
		if relayOpts != nil {
			relayOpts(&o)
		}
		n := w.addNode(o)
		for _, s := range t.servers {
			if h == hops-1 {
				spy.Add(s.Service, s.HostPort)
			} else {
				spy.Add(s.Service, t.relays[0].HostPort)
			}
		}
		t.relays = append([]*Node{n}, t.relays...)
		t.spies = append([]*SpyRelayHost{spy}, t.spies...)
	}
	for i := 0; i < nc; i++ {
		n := w.addNode(NodeOpts{Name: fmt.Sprintf("c%d", i), Service: fmt.Sprintf("client%d", i), Host: fmt.Sprintf("10.0.3.%d", i+1), Port: 0, Conn: endConn()})
		t.clients = append(t.clients, n)
	}
	return t
}

// famRelay: calls through one or two relays, with a direct twin for the
// differential part of C08, timeouts racing responses for C09/C10, optional
// arg2 appends, transport faults and cancellation. Serves C02, C04, C05, C08,
// C09, C10, C11, C12, C14, C20.
func famRelay(w *World) {
	w.Grid = []time.Duration{time.Millisecond, 100 * time.Microsecond, 10 * time.Millisecond}[scn(3)]
	faulty := scnChance(1, 2)
	w.NoFault = !faulty
	w.drawSchedule(true)
	w.linkDefaults()
	hops := 1 + scn(2)
	nc, ns := 1+scn(3), 1+scn(2)
	maxTO := time.Duration(0) // relay max timeout (0 = library default)
	if scnChance(1, 3) {
		maxTO = time.Duration(20+scn(300)) * w.Grid
		if maxTO < time.Millisecond {
			maxTO = time.Millisecond
		}
	}
	tombs := uint64([]int{0, 0, 1, 1, 2, 4}[scn(6)])
	verify := scnChance(1, 3)
	// cancellation as a way for a relayed call to end: callers that send cancel frames,
	// hops that pass them on (or not)
	sendCancel := scnChance(1, 3)
	// a slow downstream: the hop a relay dials out on is slower than the one it receives on
	// (4 KiB socket buffers, latency) and the relay's send buffers are a few frames deep, so a
	// streamed request backs up in the relay ("dest conn slow" drops) while responses, errors
	// and cancels for the same call travel the other way
	slowCallee := scnChance(1, 3)
	if slowCallee {
		lat := time.Duration(1+scn(3)) * w.Grid
		slowCap := 4 << 10
		prev := w.linkHook
		w.linkHook = func(l *Link) {
			if prev != nil {
				prev(l)
			}
			if strings.HasPrefix(l.A.Owner, "r") {
				for d := 0; d < 2; d++ {
					l.SetCapacity(d, slowCap)
					l.SetLatency(d, lat, 0)
				}
			}
		}
	}
	t := w.buildRelayTopoConn(nc, ns, hops, func() tchannel.ConnectionOptions {
		co := w.connOpts()
		co.SendCancelOnContextCanceled = sendCancel
		co.PropagateCancel = sendCancel && scnChance(1, 2)
		return co
	}, func() tchannel.ConnectionOptions {
		co := w.connOpts()
		co.PropagateCancel = sendCancel && scnChance(2, 3)
		if slowCallee {
			co.SendBufferSize = 1 + scn(4)
		}
		return co
	}, func(o *NodeOpts) {
		o.RelayMaxTimeout = maxTO
		o.RelayMaxTombs = tombs
		o.RelayTimerVerify = verify
	})
	if scnChance(1, 4) {
		// a slow relay host: some callbacks take a few ticks
		k := 2 + scn(4)
		for _, spy := range t.spies {
			spy.Slow = k
		}
	}
	withAppend := scnChance(1, 3)
	var appends [][2][]byte
	if withAppend {
		k := 1 + scn(2)
		for i := 0; i < k; i++ {
			vlen := scn(40)
			if scnChance(1, 4) {
				vlen = 1000 + scn(60000) // may push the frame past 64 KiB
			}
			appends = append(appends, [2][]byte{[]byte(fmt.Sprintf("ak%d", i)), payload("append", i, vlen)})
		}
		t.spies[0].Appends = appends
		for _, rn := range t.relays[1:] {
			t.spies[0].Downstream = append(t.spies[0].Downstream, rn.Name)
		}
	}
	w.describe("relay hops=%d clients=%d servers=%d faulty=%v maxTimeout=%v tombs=%d verify=%v appends=%d sendCancel=%v slowCallee=%v", hops, nc, ns, faulty, maxTO, tombs, verify, len(appends), sendCancel, slowCallee)

	maxTimeout := time.Duration(0)
	ntasks := 1 + scn(4)
	var fs []func()
	type pair struct{ relayed, direct *CallRec }
	var pairs []pair
	for ti := 0; ti < ntasks; ti++ {
		from := t.clients[scn(nc)]
		ncalls := 1 + scn(3)
		var recs []*CallRec
		for c := 0; c < ncalls; c++ {
			to := t.servers[scn(ns)]
			s := CallSpec{From: from, To: t.relays[0].HostPort, Service: to.Service, Via: fmt.Sprintf("relay x%d", hops),
				Timeout: time.Duration(2+scn(200)) * 10 * w.Grid, Pad2: drawSize(60000), Len3: drawSize(200000), Rs2: -1, Rs3: -1,
				WritePat: scn(4), ReadPat: scnPick(0, 0, 2)}
			if scnChance(1, 3) {
				s.Rs2, s.Rs3 = drawSize(60000), drawSize(200000)
			}
			thrift := scnChance(1, 2)
			if thrift {
				s.Opts = &tchannel.CallOptions{Format: tchannel.Thrift}
			} else if scnChance(1, 3) {
				s.Opts = &tchannel.CallOptions{Format: tchannel.JSON, ShardKey: fmt.Sprintf("shard%d", scn(10))}
			}
			switch scn(10) {
			case 0:
				s.Mode = "apperr"
			case 1:
				s.Mode = "syserr"
				s.Code = []int{1, 2, 3, 4, 5, 6, 7, 8, 0xff, 0x40}[scn(10)]
				s.Msg = fmt.Sprintf("boom-%d", scn(1000))
			case 2:
				s.Mode = "chunky"
			case 3:
				s.Mode = "partialerr"
				s.Code = 5
				s.Msg = "half"
			case 4:
				// the handler answers before it has read the whole (many-frame) request: the
				// callee's last frame meets the caller's continuation frames inside the relay
				s.Mode = "respfirst"
				s.Rs2, s.Rs3 = scn(2000), drawSize(100000)
				if s.Len3 < 70000 {
					s.Len3 = 70000 + drawSize(300000)
				}
				w.probe("relay.response-before-request-read")
			default:
				s.Mode = "echo"
			}
			if slowCallee && s.Mode == "echo" && scnChance(1, 3) {
				s.Mode = "respfirst"
				s.Rs2, s.Rs3 = scn(2000), drawSize(100000)
				if s.Len3 < 70000 {
					s.Len3 = 70000 + drawSize(300000)
				}
				w.probe("relay.response-before-request-read")
			}
			switch scn(4) {
			case 0:
				// race the response against the (relay) timeout: handler delay within a few ticks of the ttl
				s.Timeout = time.Duration(3+scn(40)) * w.Grid
				if s.Timeout < 2*time.Millisecond {
					s.Timeout = 2 * time.Millisecond
				}
				eff := s.Timeout
				if maxTO > 0 && maxTO < eff {
					eff = maxTO
				}
				s.Delay = eff + time.Duration(scn(7)-4)*w.Grid
				if s.Delay < 0 {
					s.Delay = 0
				}
				if s.Mode == "echo" && scnChance(1, 2) {
					s.Mode = "chunky"
				}
				w.probe("relay.race-planned")
			case 1:
				s.Delay = time.Duration(scn(30)) * w.Grid
			}
			if faulty && scnChance(1, 8) {
				s.Mode = "blackhole"
			}
			if faulty && scnChance(1, 5) {
				s.CancelAfter = time.Duration(scn(40)) * w.Grid
			}
			if sendCancel && scnChance(1, 2) {
				// the caller's cancel frame races the callee's last frame at the relay
				if scnChance(1, 2) {
					s.CancelOnResponse = 1 + scn(3)
				} else {
					s.CancelAfter = s.Delay + time.Duration(scnPick(0, 0, 0, 0, -1, 1, 2, 3))*w.Grid
					if s.CancelAfter <= 0 {
						s.CancelAfter = w.Grid
					}
				}
				w.probe("relay.cancel-race-planned")
			}
			if s.Timeout > maxTimeout {
				maxTimeout = s.Timeout
			}
			r := w.newCall(s)
			recs = append(recs, r)
			w.describe("call %s %s->%s via %s fmt=%v mode=%s timeout=%v a2=%d a3=%d rs=%d/%d wp=%d rp=%d delay=%v cancel=%v", r.Spec.Tag, from.Name, to.Name, s.Via, thrift, s.Mode, s.Timeout, s.Pad2, s.Len3, s.Rs2, s.Rs3, s.WritePat, s.ReadPat, s.Delay, s.CancelAfter)
			if !faulty && scnChance(1, 2) && s.CancelAfter == 0 && s.CancelOnResponse == 0 {
				// differential twin: the same call made directly
				d := s
				d.Tag = ""
				d.To = to.HostPort
				d.Via = "direct"
				dr := w.newCall(d)
				recs = append(recs, dr)
				pairs = append(pairs, pair{r, dr})
			}
		}
		gap := time.Duration(scn(5)) * w.Grid
		fs = append(fs, func() {
			for _, r := range recs {
				w.Call(r)
				if gap > 0 {
					sleep(gap)
				}
			}
		})
	}
	if faulty {
		w.planLinkFaults(2)
	}
	if faulty && scnChance(1, 3) {
		// the relay application itself closes (gracefully) connections to destinations while
		// calls keep arriving: a call may select a connection that stops being active before it
		// is reserved (the relay then rejects the call: declined, End once, nothing left behind)
		rn := t.relays[len(t.relays)-1]
		k := 1 + scn(3)
		var at []time.Duration
		for i := 0; i < k; i++ {
			at = append(at, time.Duration(scn(30))*w.Grid)
		}
		fs = append(fs, func() {
			for _, d := range at {
				sleep(d)
				for _, sv := range t.servers {
					if p, ok := rn.Ch.RootPeers().Get(sv.HostPort); ok {
						if in, out := p.NumConnections(); in+out > 0 {
							ctx, cancel := context.WithTimeout(context.Background(), time.Second)
							c, err := p.GetConnection(ctx)
							cancel()
							if err == nil {
								w.event("op", "%s closes its connection to %s", rn.Name, sv.Name)
								w.Net.Fired["app.conn-close"]++
								c.Close()
							}
						}
					}
				}
			}
		})
	}
	w.tasks(fs...)
	// C08 differential: what the destination handler observed
	for _, p := range pairs {
		w.checkTransparent(p.relayed, p.direct)
	}
	w.checkRelayWire(t)
	for _, r := range w.Calls {
		w.checkSlowDropTarget(r, t)
	}
	w.quiesceRelay(t, maxTimeout)
}

// checkSlowDropTarget: a relay that cannot queue a request frame for the
// destination (send buffer full) fails THAT call with "relay-dest-conn-slow".
// A caller that is told so although the relay re-emitted its request
// completely - and that never sent a cancel - was failed in place of another
// call (C08: the caller receives what the destination produced for ITS call;
// C04: frames for an id concern that call only).
func (w *World) checkSlowDropTarget(r *CallRec, t *relayTopo) {
	if r.Err == nil || len(t.relays) != 1 || r.Cancelled || r.Spec.CancelAfter > 0 || r.Spec.CancelOnResponse > 0 || r.Appended || !strings.HasPrefix(r.Spec.Via, "relay") {
		return
	}
	if !strings.Contains(tchannel.GetSystemErrorMessage(r.Err), "relay-dest-conn-slow") {
		return
	}
	w.eval("C08.slow-drop-target")
	rn := t.relays[0].Name
	var relayReq *wireMsg
	for _, m := range w.wireOr.reqByTag[r.Spec.Tag] {
		if m.emitter == rn {
			relayReq = m
		}
	}
	if relayReq == nil {
		return // the relay did not get the whole request through: this is the call it dropped
	}
	d := fmt.Sprintf("call %s was failed by relay %s with %q although the relay re-emitted its request completely (%d frames, id %d on link%d) and the caller sent no cancel: the slow-connection drop of another call was charged to it",
		r.Spec.Tag, rn, trunc(tchannel.GetSystemErrorMessage(r.Err), 60), relayReq.frames, relayReq.first.F.ID, relayReq.link.ID)
	w.violate("C08", "relay-failed-wrong-call", "%s", d)
	w.violate("C04", "relay-failed-wrong-call", "%s", d)
}

func (w *World) quiesceRelay(t *relayTopo, maxTimeout time.Duration) {
	w.QuiesceStarted = true
	w.stopLags()
	for _, l := range w.Net.Links {
		l.Heal()
	}
	// generous: every ttl, the library's tombstone period and slack
	w.settle(maxTimeout + 30*time.Second)
	for _, spy := range t.spies {
		spy.checkEnded()
	}
	w.event("quiesce", "relay settle over")
	w.checkQuiescent()
	// "...so both connections can complete a graceful close": nothing is in flight any more;
	// the relays are closed FIRST, while their neighbours keep their sockets open, and must
	// get all the way to closed on their own
	for _, rn := range t.relays {
		if !rn.Dead {
			rn.Close()
		}
	}
	for _, rn := range t.relays {
		if rn.Dead {
			continue
		}
		ok := false
		for waited := time.Duration(0); waited < 2*time.Minute; waited += 50 * time.Millisecond {
			if rn.sampleState() == tchannel.ChannelClosed {
				ok = true
				break
			}
			sleep(50 * time.Millisecond)
		}
		w.eval("C09.relay-closes-gracefully")
		if !ok {
			d := fmt.Sprintf("relay %s is still %v two minutes after Close although every call ended long ago and its neighbours are alive (connections: %s): a connection still counts a relayed call as pending", rn.Name, rn.sampleState(), rn.connSummary())
			w.violate("C09", "relay-cannot-close", "%s", d)
			w.violate("C07", "never-closed", "%s", d)
		}
	}
	w.quiesce(time.Second, true)
}

// checkTransparent compares what the destination handler saw for a relayed
// call and for its direct twin (C08).
func (w *World) checkTransparent(rel, dir *CallRec) {
	if !rel.H.Entered || !dir.H.Entered {
		return
	}
	w.eval("C08.differential")
	a, b := rel.H, dir.H
	if a.Caller != b.Caller || a.Service != b.Service || a.Method != b.Method || a.Format != b.Format || a.ShardKey != b.ShardKey || a.RoutingKey != b.RoutingKey || a.RoutingDelegate != b.RoutingDelegate {
		w.violate("C08", "metadata-differs", "call %s via %s vs direct %s: handler saw caller=%q/%q service=%q/%q method=%q/%q format=%q/%q shard=%q/%q rk=%q/%q rd=%q/%q",
			rel.Spec.Tag, rel.Spec.Via, dir.Spec.Tag, a.Caller, b.Caller, a.Service, b.Service, a.Method, b.Method, a.Format, b.Format, a.ShardKey, b.ShardKey, a.RoutingKey, b.RoutingKey, a.RoutingDelegate, b.RoutingDelegate)
	}
	if a.ArgsRead && (!a.Arg2OK || !a.Arg3OK) {
		{
			w.violate("C08", "arguments-differ", "call %s via %s: destination handler did not see the caller's arguments (arg2 ok=%v arg3 ok=%v)", rel.Spec.Tag, rel.Spec.Via, a.Arg2OK, a.Arg3OK)
		}
	}
}

func isTimeoutish(err error) bool {
	if err == nil {
		return false
	}
	c := tchannel.GetSystemErrorCode(err)
	return c == tchannel.ErrCodeTimeout || c == tchannel.ErrCodeCancelled
}

// checkRelayWire applies the wire-level parts of C08 and C14 to every request
// that crossed a relay: per hop the ttl does not grow and respects the relay's
// maximum; span and transport headers are unchanged; the service is unchanged.
func (w *World) checkRelayWire(t *relayTopo) {
	isRelay := map[string]*Node{}
	for _, r := range t.relays {
		isRelay[r.Name] = r
	}
	for _, tag := range sortedKeys(w.wireOr.reqByTag) {
		msgs := w.wireOr.reqByTag[tag]
		rec := w.callTag[tag]
		if rec == nil {
			continue
		}
		// order hops: emitted by the caller first, then relays in path order
		var hop0 *wireMsg
		for _, m := range msgs {
			if m.emitter == rec.Spec.From.Name {
				hop0 = m
			}
		}
		if hop0 == nil {
			continue
		}
		prev := hop0
		for _, rn := range t.relays {
			var out *wireMsg
			for _, m := range msgs {
				if m.emitter == rn.Name {
					out = m
				}
			}
			if out == nil {
				break
			}
			w.eval("C08.hop-wire")
			w.eval("C14.ttl-relay-hop")
			fi, fo := prev.first.F, out.first.F
			if fo.TTL > fi.TTL {
				d := fmt.Sprintf("call %s: relay %s forwarded ttl %dms but received %dms", tag, rn.Name, fo.TTL, fi.TTL)
				w.violate("C14", "relay-ttl-grew", "%s", d)
				w.violate("C08", "relay-ttl-grew", "%s", d)
			}
			max := rn.Opts.RelayMaxTimeout
			if max == 0 {
				max = 2 * time.Minute // documented default
			}
			if time.Duration(fo.TTL)*time.Millisecond > max {
				d := fmt.Sprintf("call %s: relay %s forwarded ttl %dms above its maximum %v", tag, rn.Name, fo.TTL, max)
				w.violate("C14", "relay-ttl-above-max", "%s", d)
				w.violate("C08", "relay-ttl-above-max", "%s", d)
			}
			if fo.Span != fi.Span {
				w.violate("C08", "span-changed", "call %s: relay %s changed the tracing span %+v -> %+v", tag, rn.Name, fi.Span, fo.Span)
			}
			if fo.Service != fi.Service {
				w.violate("C08", "service-changed", "call %s: relay %s changed the service %q -> %q", tag, rn.Name, fi.Service, fo.Service)
			}
			if !sameKVSet(fi.Headers, fo.Headers) {
				w.violate("C08", "headers-changed", "call %s: relay %s changed the transport headers %v -> %v", tag, rn.Name, fi.Headers, fo.Headers)
			}
			prev = out
		}
	}
}

func sameKVSet(a, b []wire.KV) bool {
	if len(a) != len(b) {
		return false
	}
	m := map[string]string{}
	for _, kv := range a {
		m[kv.K] = kv.V
	}
	for _, kv := range b {
		if v, ok := m[kv.K]; !ok || v != kv.V {
			return false
		}
	}
	return true
}
