package vsim

import (
	"context"
	"fmt"
	"strings"
	"time"

	tchannel "github.com/uber/tchannel-go"

	"vsim/wire"
)

func init() { families["close"] = famClose }

// famClose: nodes call each other in both directions; at a drawn moment Close
// is called on one node (once, or repeatedly from several tasks) while calls
// begin, run, finish and time out around it. Serves C07 (and C11, C12, C16).
func famClose(w *World) {
	w.Grid = []time.Duration{time.Millisecond, 100 * time.Microsecond, 10 * time.Millisecond}[scn(3)]
	w.NoFault = true
	w.drawSchedule(true)
	w.linkDefaults()
	nn := 2 + scn(2)
	withRelay := scnChance(1, 3)
	pingers := 0
	if scnChance(1, 3) {
		pingers = 1 + scn(4)
	}
	var spy *SpyRelayHost
	var relayNode *Node
	for i := 0; i < nn; i++ {
		co := w.connOpts()
		if scnChance(1, 4) {
			co.MaxCloseTime = time.Duration(50+scn(500)) * w.Grid
		}
		o := NodeOpts{Name: fmt.Sprintf("n%d", i), Service: fmt.Sprintf("svc%d", i), Host: fmt.Sprintf("10.0.0.%d", i+1), Port: 4000 + i, Conn: co}
		n := w.addNode(o)
		n.Ch.Register(&echoHandler{w: w, n: n}, "echo")
	}
	if withRelay {
		spy = &SpyRelayHost{w: w, name: "r0"}
		relayNode = w.addNode(NodeOpts{Name: "r0", Service: "relay", Host: "10.0.1.1", Port: 4500, Conn: w.connOpts(), Relay: spy})
		for _, n := range w.Nodes[:nn] {
			spy.Add(n.Service, n.HostPort)
		}
	}
	// who closes, when, how often
	closers := 1
	if scnChance(1, 3) {
		closers = 2 + scn(3)
	}
	victim := w.Nodes[scn(len(w.Nodes))]
	closeAt := time.Duration(scn(60)) * w.Grid
	w.describe("close nodes=%d relay=%v victim=%s closeAt=%v closers=%d pings=%d", nn, withRelay, victim.Name, closeAt, closers, pingers)

	maxTimeout := time.Duration(0)
	var fs []func()
	ntasks := 2 + scn(4)
	for t := 0; t < ntasks; t++ {
		from := w.Nodes[scn(nn)]
		ncalls := 1 + scn(5)
		var recs []*CallRec
		for c := 0; c < ncalls; c++ {
			to := w.Nodes[scn(nn)]
			if to == from {
				to = w.Nodes[(indexOf(w.Nodes, from)+1)%nn]
			}
			// bias traffic towards the node that will be closed
			if scnChance(1, 2) && victim != from && victim.Opts.Relay == nil {
				to = victim
			}
			s := CallSpec{From: from, To: to.HostPort, Service: to.Service, Via: "direct",
				Timeout: time.Duration(20+scn(300)) * 10 * w.Grid, Pad2: scn(2000), Len3: drawSize(150000), Rs2: -1, Rs3: -1,
				WritePat: scnPick(0, 0, 1, 3), ReadPat: scnPick(0, 0, 2)}
			if withRelay && scnChance(1, 2) {
				s.To = relayNode.HostPort
				s.Via = "relay x1"
			}
			if scnChance(2, 3) {
				s.Delay = time.Duration(scn(80)) * w.Grid
			}
			switch scn(8) {
			case 0:
				s.Mode = "apperr"
			case 1:
				s.Mode = "syserr"
				s.Code = []int{3, 5, 6, 8, 0x40}[scn(5)]
				s.Msg = "x"
			}
			if s.Timeout > maxTimeout {
				maxTimeout = s.Timeout
			}
			r := w.newCall(s)
			recs = append(recs, r)
			w.describe("call %s %s->%s via %s mode=%s timeout=%v a3=%d delay=%v", r.Spec.Tag, from.Name, to.Name, s.Via, r.Spec.Mode, s.Timeout, s.Len3, s.Delay)
		}
		start := time.Duration(scn(40)) * w.Grid
		gap := time.Duration(scn(10)) * w.Grid
		fs = append(fs, func() {
			sleep(start)
			for _, r := range recs {
				w.Call(r)
				if gap > 0 {
					sleep(gap)
				}
			}
		})
	}
	if scnChance(1, 2) && victim.Opts.Relay == nil {
		// a long call holds the victim's connection open while short calls race
		// the Close at admission
		from := w.Nodes[(indexOf(w.Nodes, victim)+1)%nn]
		hold := w.newCall(CallSpec{From: from, To: victim.HostPort, Service: victim.Service, Via: "direct", Timeout: time.Duration(2000+scn(2000)) * w.Grid,
			Delay: time.Duration(400+scn(600)) * w.Grid, Len3: scn(2000), Rs2: -1, Rs3: -1})
		if hold.Spec.Timeout > maxTimeout {
			maxTimeout = hold.Spec.Timeout
		}
		w.describe("holder %s %s->%s delay=%v timeout=%v", hold.Spec.Tag, from.Name, victim.Name, hold.Spec.Delay, hold.Spec.Timeout)
		fs = append(fs, func() { w.Call(hold) })
		nr := 2 + scn(4)
		for i := 0; i < nr; i++ {
			r := w.newCall(CallSpec{From: from, To: victim.HostPort, Service: victim.Service, Via: "direct", Timeout: time.Duration(30+scn(150)) * w.Grid,
				Len3: scn(3000), Rs2: -1, Rs3: -1})
			if r.Spec.Timeout < 2*time.Millisecond {
				r.Spec.Timeout = 2 * time.Millisecond
			}
			at := closeAt + time.Duration(scn(5)-2)*w.Grid
			if at < 0 {
				at = 0
			}
			w.describe("racer %s at=%v timeout=%v", r.Spec.Tag, at, r.Spec.Timeout)
			fs = append(fs, func() { sleep(at); w.Call(r) })
		}
		w.probe("C07.holder-planned")
	}
	if scnChance(1, 3) && victim.Opts.Relay == nil {
		// the victim's own long OUTBOUND call keeps a connection open (past the "inbound
		// drained" stage of its close) while the other side sends it new calls over that
		// very connection
		from := w.Nodes[(indexOf(w.Nodes, victim)+1)%nn]
		warm := w.newCall(CallSpec{From: from, To: victim.HostPort, Service: victim.Service, Via: "direct", Timeout: 5 * time.Second, Rs2: -1, Rs3: -1})
		hold := w.newCall(CallSpec{From: victim, To: from.HostPort, Service: from.Service, Via: "direct", Timeout: time.Duration(2000+scn(2000)) * w.Grid,
			Delay: closeAt + time.Duration(300+scn(600))*w.Grid, Len3: scn(2000), Rs2: -1, Rs3: -1})
		if hold.Spec.Timeout > maxTimeout {
			maxTimeout = hold.Spec.Timeout
		}
		w.describe("outbound holder %s %s->%s delay=%v timeout=%v", hold.Spec.Tag, victim.Name, from.Name, hold.Spec.Delay, hold.Spec.Timeout)
		warmed := false
		fs = append(fs, func() { w.Call(warm); warmed = true; w.Call(hold) })
		nr := 1 + scn(4)
		for i := 0; i < nr; i++ {
			r := w.newCall(CallSpec{From: from, To: victim.HostPort, Service: victim.Service, Via: "direct", Timeout: time.Duration(30+scn(150)) * w.Grid,
				Len3: scn(3000), Rs2: -1, Rs3: -1})
			if r.Spec.Timeout < 2*time.Millisecond {
				r.Spec.Timeout = 2 * time.Millisecond
			}
			at := closeAt + time.Duration(scn(60)-2)*w.Grid
			if at < 0 {
				at = 0
			}
			w.describe("racer(outbound holder) %s at=%v timeout=%v", r.Spec.Tag, at, r.Spec.Timeout)
			fs = append(fs, func() {
				sleep(at)
				if warmed {
					w.Call(r)
				}
			})
		}
		w.probe("C07.outbound-holder-planned")
	}
	// pings in both directions around the close (a peer's health check, an application's
	// liveness probe): a ping may fail; it must not hurt the calls that are draining, nor
	// leave anything behind
	for k := 0; k < pingers; k++ {
		a := w.Nodes[scn(nn)]
		b := w.Nodes[(indexOf(w.Nodes, a)+1+scn(nn-1))%nn]
		if scnChance(1, 2) {
			a, b = victim, a
			if b == victim {
				b = w.Nodes[(indexOf(w.Nodes, victim)+1)%nn]
			}
		} else if scnChance(1, 2) && a != victim {
			b = victim
		}
		at := closeAt + time.Duration(scn(80)-5)*w.Grid
		if at < 0 {
			at = 0
		}
		if a.Opts.Relay != nil || b.Opts.Relay != nil {
			continue
		}
		w.describe("ping %s->%s at=%v", a.Name, b.Name, at)
		fs = append(fs, func() {
			sleep(at)
			ctx, cancel := context.WithTimeout(context.Background(), time.Duration(5+scn(40))*w.Grid)
			a.Ch.Ping(ctx, b.HostPort)
			cancel()
			w.probe("C07.ping-around-close")
		})
	}
	for k := 0; k < closers; k++ {
		d := closeAt + time.Duration(scn(6)*k)*w.Grid
		fs = append(fs, func() {
			sleep(d)
			victim.Close()
			// C07(3): a call begun after Close returned fails locally
			if scnChance(1, 2) {
				other := w.Nodes[(indexOf(w.Nodes, victim)+1)%nn]
				r := w.newCall(CallSpec{From: victim, To: other.HostPort, Service: other.Service, Via: "direct", Timeout: time.Second, Len3: 10, Rs2: -1, Rs3: -1})
				r.AfterClose = true
				w.Call(r)
			}
		})
	}
	// monitor: samples every node's state on its own schedule (C07 rule 5)
	stop := false
	monitor := func() {
		for !stop {
			for _, n := range w.Nodes {
				n.sampleState()
			}
			sleep(time.Duration(1+scn(3)) * w.Grid)
		}
	}
	fs2 := append([]func(){}, fs...)
	allDone := 0
	wrapped := make([]func(), 0, len(fs2)+1)
	for _, f := range fs2 {
		f := f
		wrapped = append(wrapped, func() {
			f()
			allDone++
			if allDone == len(fs2) {
				stop = true
			}
		})
	}
	wrapped = append(wrapped, monitor)
	w.tasks(wrapped...)
	// the workload is over: no injected slowness while the relays are given their time
	w.QuiesceStarted = true
	w.stopLags()
	if spy != nil {
		sleep(maxTimeout + 30*time.Second)
		spy.checkEnded()
	}
	// the history-based rules are judged once traffic has ceased: an answer still queued behind
	// other frames on a slow link is an answer
	for _, l := range w.Net.Links {
		l.Heal()
	}
	w.settle(maxTimeout + 5*time.Second)
	w.checkCloseOracles(victim)
	w.quiesce(time.Second, true)
}

// checkCloseOracles evaluates the history-based rules of C07 for the node
// that was closed during the workload.
func (w *World) checkCloseOracles(v *Node) {
	if v.closeCalledEv == 0 {
		return
	}
	// (0) "once nothing is in flight the channel reaches the closed state": every call has
	// ended and traffic has ceased, the other nodes are still up (their sockets open) - the
	// closed node must have got there on its own
	w.eval("C07.reaches-closed-alone")
	if st := v.sampleState(); st != tchannel.ChannelClosed {
		// give it the (generous) time a drain may take
		ok := false
		for waited := time.Duration(0); waited < 2*time.Minute; waited += 100 * time.Millisecond {
			sleep(100 * time.Millisecond)
			if v.sampleState() == tchannel.ChannelClosed {
				ok = true
				break
			}
		}
		if !ok {
			w.violate("C07", "never-closed", "channel %s is still %v long after its Close although every call has ended and its neighbours are alive (connections: %s)", v.Name, v.sampleState(), v.connSummary())
		}
	}
	// (1) calls accepted before Close began complete with their correct result
	for _, r := range w.Calls {
		w.eval("C07.accepted-call-completes")
		involves := r.Spec.From == v || (r.H.Entered && r.H.Node == v.Name)
		if !involves || !r.Done {
			continue
		}
		if r.AfterClose {
			// (3) new outbound calls fail locally: no frame may have been emitted for it
			w.eval("C07.begin-after-close")
			if r.Err == nil {
				w.violate("C07", "call-after-close-succeeded", "call %s begun on %s after Close returned succeeded", r.Spec.Tag, v.Name)
			}
			if msgs := w.wireOr.reqByTag[r.Spec.Tag]; len(msgs) > 0 {
				w.violate("C07", "frame-after-close", "call %s begun on %s after Close returned still emitted a request frame", r.Spec.Tag, v.Name)
			}
			continue
		}
		acceptedBefore := false
		if r.H.Entered && r.H.Node == v.Name && r.H.EnterEv < v.closeCalledEv {
			acceptedBefore = true // inbound: handler was entered before Close began
		}
		if r.Spec.From == v && r.BeginErr == nil && r.TOutEv != 0 && r.TOutEv < v.closeCalledEv {
			acceptedBefore = true // outbound: BeginCall had returned (exchange registered) before Close began
		}
		if !acceptedBefore || r.EndEv < v.closeCalledEv {
			continue
		}
		w.probe("C07.in-flight-at-close")
		if r.Err == nil || r.completedNormally() {
			continue
		}
		// excused: its own deadline, or the OTHER side going away first
		if r.EndAt >= r.Deadline {
			continue
		}
		if r.H.Entered && r.H.HasDeadline && r.EndAt >= r.H.Deadline {
			// the ttl the request carried (the caller's remaining time cut down to whole
			// milliseconds) had run out at the handler: that is the call's timeout, even if the
			// caller's own clock had a fraction of a millisecond left
			w.probe("C07.ttl-ran-out-at-handler-before-caller-deadline")
			continue
		}
		if strings.HasPrefix(r.Spec.Via, "relay") && tchannel.GetSystemErrorCode(r.Err) == tchannel.ErrCodeTimeout {
			// a relay keeps its own clock for the call: the ttl it received (the caller's remaining
			// time cut down to whole milliseconds) counted from when the request arrived. That can
			// run out slightly before the caller's own deadline; it is still the call's timeout.
			ttl := time.Duration(-1)
			for _, m := range w.wireOr.reqByTag[r.Spec.Tag] {
				if m.emitter == r.Spec.From.Name {
					ttl = time.Duration(m.first.F.TTL) * time.Millisecond
				}
			}
			if ttl >= 0 && r.EndAt >= r.TIn+ttl {
				w.probe("C07.relay-ttl-ran-out-before-caller-deadline")
				continue
			}
		}
		if r.H.RespErr != nil && strings.Contains(r.H.RespErr.Error(), "buffer full") {
			continue // the handler's error frame was dropped on a full (configured, tiny) send buffer: the call had lost its answer whether or not Close came
		}
		if strings.Contains(tchannel.GetSystemErrorMessage(r.Err), "-conn-slow") {
			continue // a relay dropped the call because a (configured, tiny) send buffer was full: not Close's doing
		}
		if strings.Contains(tchannel.GetSystemErrorMessage(r.Err), "send buffer is full") || (w.PingSendFailed && tchannel.GetSystemErrorCode(r.Err) == tchannel.ErrCodeNetwork) {
			// a ping (or another control message) could not be queued on a (configured, tiny) send
			// buffer that was full of call frames: the library treats that as a failure of the
			// connection, which ends the calls on it - a connection failure, not Close's doing
			w.probe("C07.connection-failed-ping-on-full-send-buffer")
			continue
		}
		if w.otherSideClosedFirst(r, v) {
			continue
		}
		if r.Spec.From == v && w.errorFrameFromPeer(r, v) {
			// the closing node's own outbound call was answered with an error frame the other
			// party produced (e.g. a relay reporting that ITS connection to the destination
			// failed): that is the call's result, delivered; Close did not cut it
			w.probe("C07.outbound-call-ended-by-peer-error-frame")
			continue
		}
		if mct := v.Opts.Conn.MaxCloseTime; mct > 0 && r.EndAt >= w.eventTime(v.closeCalledEv)+mct {
			continue // the configured maximum close time ran out: pending calls are cut by design
		}
		w.violate("C07", "accepted-call-not-completed", "call %s (%s, %s -> handler on %s) was accepted before Close began on %s (close-called #%d) but ended with %s at %v (deadline %v)",
			r.Spec.Tag, r.Spec.Via, r.Spec.From.Name, r.H.Node, v.Name, v.closeCalledEv, errStr(r.Err), r.EndAt, r.Deadline)
	}
	// (2) every call request the closing node READ while the connection was still up gets a reply
	for _, l := range w.Net.Links {
		for side := 0; side < 2; side++ {
			var c *Conn
			if side == 0 {
				c = l.A
			} else {
				c = l.B
			}
			if c.Owner != v.Name {
				continue
			}
			inDir := 0 // frames flowing towards this endpoint: dir 0 is A->B
			if side == 0 {
				inDir = 1
			} else {
				inDir = 0
			}
			outDir := 1 - inDir
			myClose := l.CloseEv[side]
			otherClose := l.CloseEv[1-side]
			for _, tf := range l.Frames[inDir] {
				if tf.Err != nil || tf.F.Type != wire.TCallReq || tf.REv == 0 {
					continue
				}
				if myClose != 0 && tf.REv > myClose {
					continue // read after our socket was closed: cannot happen / outside the property
				}
				w.eval("C07.request-read-gets-reply")
				replied := false
				declined := false
				var refusal *wire.Frame
				for _, of := range l.Frames[outDir] {
					if of.Err != nil || of.F.ID != tf.F.ID {
						continue
					}
					if of.F.Type == wire.TCallRes || of.F.Type == wire.TError {
						replied = true
						if of.F.Type == wire.TError && of.F.ErrCode == wire.ErrDeclined {
							declined = true
						}
						if of.F.Type == wire.TError && refusal == nil {
							refusal = of.F
						}
					}
				}
				tag := tagOfFrame(tf.F)
				rec := w.callTag[tag]
				afterCloseReturned := v.closeReturnedEv != 0 && tf.WEv > v.closeReturnedEv
				if afterCloseReturned && v.Opts.Relay == nil {
					// arrived after Close returned: must be refused, never served
					w.eval("C07.late-request-declined")
					if rec != nil && rec.H.Entered && rec.H.Node == v.Name && rec.H.EnterEv > v.closeReturnedEv {
						w.violate("C07", "served-after-close", "request %s (id %d) was written to %s after its Close returned (#%d) and was still served (handler entered #%d)", tag, tf.F.ID, v.Name, v.closeReturnedEv, rec.H.EnterEv)
					}
					if replied && !declined {
						w.probe("C07.late-request-non-declined-reply")
					}
				}
				if v.Opts.Relay == nil && v.closeCalledEv != 0 && replied && !declined && refusal != nil && rec != nil && !rec.H.Entered &&
					refusal.ErrCode != wire.ErrProtocol && refusal.ErrCode != wire.ErrTimeout && rec.Spec.Mode != "blackhole" {
					// The closing node refused a valid request for a registered handler - whether it
					// arrived after Close or just as Close landed - but not with the declined "closed
					// channel" error the caller (and its retry logic) is promised
					w.eval("C07.refusal-is-declined")
					d := fmt.Sprintf("request %s (id %d) was refused by the closing node %s (Close called #%d, request read #%d) with error code %#x %q instead of declined",
						tag, tf.F.ID, v.Name, v.closeCalledEv, tf.REv, refusal.ErrCode, trunc(refusal.Message, 60))
					w.violate("C07", "late-request-wrong-refusal", "%s", d)
					w.violate("C20", "closing-peer-not-declined", "%s", d)
				}
				if replied {
					continue
				}
				// The node never wrote anything for this request. Whether that is the
				// property's "silently dropped" depends on whether it had the chance: a
				// request read while the connection is already in its final teardown
				// cannot be answered (unavoidable race, the caller sees the connection
				// end). The decidable case: the connection stayed up until the caller's
				// own deadline, so the caller waited its full timeout for nothing.
				if rec == nil || rec.Spec.Mode == "blackhole" {
					continue
				}
				if rec.Done && rec.EndEv < v.closeCalledEv {
					continue // over (for its caller) before Close began: whatever became of it, Close did not drop it
				}
				if v.LogMsgs["Couldn't send outbound frame."] > 0 {
					w.probe("C07.error-frame-dropped-send-buffer-full")
					continue // the (configured, tiny) send buffer was full: the library drops error frames by design then
				}
				if rec.H.Entered && rec.H.Node == v.Name {
					continue // admitted and served: what became of it is rule (1)'s business (its own deadline ended it)
				}
				if tf.F.More() && !w.requestComplete(l, inDir, tf) {
					continue // the request itself never arrived completely
				}
				endAt := time.Duration(-1)
				for i, e := range []int64{myClose, otherClose, l.CutEv} {
					at := []time.Duration{l.CloseAt[side], l.CloseAt[1-side], l.CutAt}[i]
					if e != 0 && (endAt < 0 || at < endAt) {
						endAt = at
					}
				}
				if endAt >= 0 && endAt < rec.Deadline+rec.StallIn {
					w.probe("C07.unanswered-request-in-teardown")
					continue
				}
				if !rec.Done || rec.EndAt < rec.Deadline {
					continue
				}
				if tf.RAt+rec.StallIn >= rec.Deadline {
					continue // read only after the caller had given up: nobody to answer
				}
				if l.WriterBlockedAt(outDir, rec.Deadline) {
					// whatever the node had to say (its refusal is an error frame like any other)
					// sat in its send queue behind a socket write that could not proceed: the
					// caller's side was not reading (a caller busy in its own code with a full
					// receive buffer blocks its connection's reader). Not the node's doing.
					w.probe("C07.reply-stuck-behind-blocked-writer")
					continue
				}
				w.probe("C07.request-dropped-without-reply")
				why := ""
				if v.ErrOnClosedConn[tf.F.ID] > 0 {
					// attribution: the library itself gave up on the error frame. Was the connection
					// merely draining (every call that used it had already ended at this node), or
					// were calls still pending on it?
					pending := 0
					for _, o := range w.Calls {
						if o == rec || !w.requestOnLink(o, l) {
							continue
						}
						if o.Spec.From == v { // the node's own outbound call
							if o.BeginEv != 0 && o.BeginEv < tf.REv && (!o.Done || o.EndEv > tf.REv) {
								pending++
							}
						} else if o.H.Entered && o.H.Node == v.Name && o.H.EnterEv < tf.REv && (o.H.ExitEv == 0 || o.H.ExitEv > tf.REv) {
							pending++ // a handler of the node still running
						}
					}
					if pending == 0 {
						why = "; the node logged 'Could not send error frame on closed connection' for this id and no call was pending on that connection any more: its connection object was already in the closed state while its writer was still draining queued frames to a slow reader"
					} else {
						why = fmt.Sprintf("; the node logged 'Could not send error frame on closed connection' for this id although %d call(s) were still pending on that connection", pending)
					}
				}
				w.violate("C07", "request-dropped", "node %s read call request %s (id %d, link%d) at #%d, kept the connection up past the caller's deadline (%v) and never wrote a response or an error frame for it: the caller waited its full timeout (Close called #%d, returned #%d)%s",
					v.Name, tag, tf.F.ID, l.ID, tf.REv, rec.Deadline, v.closeCalledEv, v.closeReturnedEv, why)
			}
		}
	}
}

// requestOnLink: did call o's request travel on link l?
func (w *World) requestOnLink(o *CallRec, l *Link) bool {
	for _, m := range w.wireOr.reqByTag[o.Spec.Tag] {
		if m.link == l {
			return true
		}
	}
	return false
}

func tagOfFrame(f *wire.Frame) string {
	for _, c := range f.Chunks {
		if cmd, _ := parseCmd(append(append([]byte(nil), c[:min(len(c), 300)]...), '\n')); cmd != nil && cmd["tag"] != "" {
			return cmd["tag"]
		}
		if cmd, _, _ := parseArg2(true, c); cmd != nil {
			return cmd["tag"]
		}
	}
	return "?"
}

func (w *World) eventTime(ev int64) time.Duration {
	// history events are appended in order; find the last one at or before ev
	var t time.Duration
	for _, e := range w.Hist {
		if e.Ev > ev {
			break
		}
		t = e.At
	}
	return t
}

func (w *World) requestComplete(l *Link, dir int, first *TapFrame) bool {
	for _, tf := range l.Frames[dir] {
		if tf.Seq > first.Seq && tf.Err == nil && tf.F.ID == first.F.ID && tf.F.Type == wire.TCallReqCont && !tf.F.More() {
			return tf.REv != 0
		}
	}
	return false
}

// otherSideClosedFirst: the call's connection was ended by the peer or a fault
// rather than by v.
// errorFrameFromPeer: did a node other than v write an error frame for v's call r on a
// link of v, carrying the code the caller ended with?
func (w *World) errorFrameFromPeer(r *CallRec, v *Node) bool {
	var id uint32
	var on *Link
	for _, m := range w.wireOr.reqByTag[r.Spec.Tag] {
		if m.emitter == v.Name {
			id, on = m.first.F.ID, m.link
		}
	}
	if on == nil {
		return false
	}
	side := 0
	if on.B.Owner == v.Name {
		side = 1
	}
	for _, tf := range on.Frames[1-side] {
		if tf.Err == nil && tf.F.Type == wire.TError && tf.F.ID == id && tf.REv != 0 &&
			tchannel.SystemErrCode(tf.F.ErrCode) == tchannel.GetSystemErrorCode(r.Err) {
			return true
		}
	}
	return false
}

func (w *World) otherSideClosedFirst(r *CallRec, v *Node) bool {
	for _, l := range w.Net.Links {
		if l.A.Owner != v.Name && l.B.Owner != v.Name {
			continue
		}
		side := 0
		if l.B.Owner == v.Name {
			side = 1
		}
		if l.CutEv != 0 {
			return true
		}
		if l.CloseEv[1-side] != 0 && (l.CloseEv[side] == 0 || l.CloseEv[1-side] < l.CloseEv[side]) {
			// only relevant if the call used this link: approximated by the peer being the call's other party
			other := l.A.Owner
			if side == 0 {
				other = l.B.Owner
			}
			to := ""
			for _, n := range w.Nodes {
				if n.HostPort == r.Spec.To {
					to = n.Name
				}
			}
			if other == r.Spec.From.Name || other == r.H.Node || other == to {
				return true
			}
		}
	}
	return false
}
