package vsim

import (
	"encoding/json"
	"fmt"
	"os"
	"runtime"
	"testing"
	"testing/synctest"
	"time"
)

// TestSim runs exactly one simulated run, described by the JSON file named in
// VSIM_SPEC, and writes its result to VSIM_OUT. One run = one bubble = one OS
// process.
func TestSim(t *testing.T) {
	specPath := os.Getenv("VSIM_SPEC")
	if specPath == "" {
		t.Skip("VSIM_SPEC not set")
	}
	var spec RunSpec
	b, err := os.ReadFile(specPath)
	if err != nil {
		fmt.Fprintln(os.Stderr, "vsim: cannot read spec:", err)
		os.Exit(2)
	}
	if err := json.Unmarshal(b, &spec); err != nil {
		fmt.Fprintln(os.Stderr, "vsim: bad spec:", err)
		os.Exit(2)
	}
	// real-time watchdog, outside the bubble: a goroutine that never reaches a
	// scheduling point would otherwise hang the run forever
	wd := spec.WatchdogSec
	if wd <= 0 {
		wd = 120
	}
	go func() {
		time.Sleep(time.Duration(wd) * time.Second)
		buf := make([]byte, 1<<20)
		n := runtime.Stack(buf, true)
		fmt.Fprintf(os.Stderr, "VSIM-WATCHDOG: run did not finish in %ds of real time\n%s\n", wd, buf[:n])
		os.Exit(3)
	}()
	synctest.Test(t, func(t *testing.T) {
		res := runOne(spec)
		out, _ := json.Marshal(res)
		if p := os.Getenv("VSIM_OUT"); p != "" {
			if err := os.WriteFile(p, out, 0644); err != nil {
				fmt.Fprintln(os.Stderr, "vsim: cannot write result:", err)
				os.Exit(2)
			}
		} else {
			os.Stdout.Write(out)
			os.Stdout.Write([]byte("\n"))
		}
		// parked goroutines of an aborted run would make the bubble's exit
		// panic; the result is already written
		os.Exit(0)
	})
}
