#!/bin/bash
# covreport.sh [runs-per-property] [props...]
# Development aid: which library statements do the families reach? Builds the
# simulation binary with statement counters for the library packages, runs the
# quick tier of each property with it, merges the counters of all runs and prints
# per-function coverage plus the list of never-executed blocks. The line numbers
# refer to the INSTRUMENTED copy of the library, kept in /var/tmp/verif-cov/src.
# Writes nothing under /repo; evidence files written by these runs are restored.
RUNS="${1:-1500}"; shift
PROPS="${@:-C01 C02 C03 C04 C05 C06 C07 C08 C09 C10 C11 C12 C13 C14 C15 C16 C17 C18 C19 C20}"
cd /verif
export GOFLAGS=-mod=mod GOPROXY=off GOSUMDB=off GOTOOLCHAIN=local
D=/var/tmp/verif-cov; rm -rf $D; mkdir -p $D/data $D/ev
cp evidence/*.json $D/ev/
export VERIF_COVER=1 VSIM_COVDIR=$D/data VERIF_COVER_SRC=$D/src
for p in $PROPS; do
  out=$(./check $p quick -runs $RUNS -nomin 2>&1); rc=$?
  echo "$p rc=$rc $(echo "$out" | grep -c '^VIOLATION') violation lines; counters: $(find $D/data -name 'covcounters.*' | wc -l)"
  # merge as we go: tens of thousands of small files otherwise
  mkdir -p $D/merged.new
  if [ -d $D/merged ]; then IN="$D/data,$D/merged"; else IN="$D/data"; fi
  go1.26.8 tool covdata merge -i=$IN -o=$D/merged.new >/dev/null 2>&1 && { rm -rf $D/merged; mv $D/merged.new $D/merged; find $D/data -name 'covcounters.*' -delete; }
done
cp $D/ev/*.json evidence/
go1.26.8 tool covdata textfmt -i=$D/merged -o=$D/profile.txt
go1.26.8 tool covdata percent -i=$D/merged
python3 - "$D/profile.txt" > $D/uncovered.txt <<'PY'
import sys,collections
blocks=collections.OrderedDict()
for l in open(sys.argv[1]):
    if l.startswith('mode:'): continue
    loc,n,c=l.rsplit(' ',2)
    blocks[loc]=max(blocks.get(loc,0),int(c))
for loc,c in blocks.items():
    if c==0: print(loc)
PY
echo "never-executed blocks: $(wc -l < $D/uncovered.txt) (list: $D/uncovered.txt, sources: $D/src)"
