package vsim

import (
	"fmt"
	"github.com/uber/tchannel-go/simrt"
	"sync"
	"time"

	"vsim/wire"
)

func init() { families["rawclient"] = famRawClient }

// famRawClient: a protocol-level observer (raw client through the independent
// codec) issues requests to a real server, or to a real relay in front of a
// real server or of a raw destination that answers late, twice, or never.
// What the server/relay writes back per request id is judged by the tap's
// automaton (C10); this family adds the races and the relay-timeout rule.
func famRawClient(w *World) {
	w.Grid = []time.Duration{time.Millisecond, 100 * time.Microsecond, 10 * time.Millisecond}[scn(3)]
	w.NoFault = false
	w.drawSchedule(true)
	w.linkDefaults()
	topo := scn(3) // 0: raw -> server, 1: raw -> relay -> server, 2: raw -> relay -> raw destination
	// slow reader (direct topology only): the raw client stops reading until the very
	// deadline of its first request, whose multi-fragment response is by then stuck in a
	// one- or two-frame send buffer behind a 4 KiB socket buffer with the handler blocked
	// handing over a fragment - the send completes and the deadline fires at one instant
	slowAlone := scnChance(2, 3)
	slow := topo == 0 && scnChance(1, 2)
	sconn := w.connOptsBig()
	if slow {
		if simrt.Cur().Cfg().LagWakePM < 150 && scnChance(2, 3) {
			simrt.Cur().SetLateWake(300) // and the server's goroutines may be slow to get going once woken
		}
		sconn.SendBufferSize = 1 + scn(2)
		w.Net.Fired["buf.small"]++
		w.linkHook = func(l *Link) {
			for d := 0; d < 2; d++ {
				l.SetCapacity(d, 4<<10)
				l.SetLatency(d, 0, 0) // the backlog drains within one simulated instant, and the server's deadline is the moment of sending plus the ttl
			}
		}
	}
	srv := w.addNode(NodeOpts{Name: "s0", Service: "svc0", Host: "10.0.2.1", Port: 5000, Conn: sconn})
	srv.Ch.Register(&echoHandler{w: w, n: srv}, "echo")
	target := srv.HostPort
	var spy *SpyRelayHost
	maxTO := time.Duration(0)
	service := srv.Service
	if topo > 0 {
		if scnChance(1, 2) {
			maxTO = time.Duration(5+scn(100)) * w.Grid
			if maxTO < 2*time.Millisecond {
				maxTO = 2 * time.Millisecond
			}
		}
		spy = &SpyRelayHost{w: w, name: "r0"}
		rn := w.addNode(NodeOpts{Name: "r0", Service: "relay", Host: "10.0.1.1", Port: 4500, Conn: w.connOptsBig(), Relay: spy, RelayMaxTimeout: maxTO, RelayMaxTombs: uint64(scn(3))})
		target = rn.HostPort
		if topo == 1 {
			spy.Add(srv.Service, srv.HostPort)
		}
	}
	type destPlan struct {
		delay   time.Duration
		kind    int
		breakA1 bool      // the response's first frame ends right after (the empty) arg1
		sent    [3][]byte // what a complete response carried
	}
	plans := map[string]*destPlan{}
	if topo == 2 {
		// raw destination behind the relay
		rd := w.newRawPeer("rawdst", "10.0.8.1")
		var dstQ sendLock // the destination's responders share one socket: whole frames only
		hp := rd.Listen(6000, func(c *RawConn) {
			if err := c.ServerHandshake("10.0.8.1:6000"); err != nil {
				return
			}
			for {
				f, err := c.ReadFrame(30 * time.Second)
				if err != nil {
					return
				}
				if f.Type != wire.TCallReq {
					continue
				}
				tag := tagOfFrame(f)
				p := plans[tag]
				if p == nil {
					p = &destPlan{}
				}
				id := f.ID
				go func() {
					dstSend := func(b []byte) error {
						var err error
						dstQ.do(func() { err = c.Send(b) })
						return err
					}
					sleep(p.delay)
					args := [3][]byte{nil, []byte("r;" + tag + "\n"), payload(tag, 13, 500+app(1500))}
					p.sent = args
					res := wire.EncCall(wire.CallSpec{Type: wire.TCallRes, ID: id, CsumType: wire.CsumCRC32, MaxFrame: 200 + app(300), BreakAfterArg1: p.breakA1, Args: args})
					switch p.kind {
					case 0: // complete response
						for _, b := range res {
							dstSend(b)
						}
					case 1: // first fragments, then silence
						for _, b := range res[:len(res)/2] {
							dstSend(b)
						}
					case 2: // complete response, then the last frame again and an error (peer.dup)
						for _, b := range res {
							dstSend(b)
						}
						dstSend(res[len(res)-1])
						dstSend(wire.EncError(id, wire.ErrUnexpected, wire.Span{}, "dup"))
						w.Net.Fired["peer.dup"]++
					case 3: // error, then a response anyway (peer.late)
						dstSend(wire.EncError(id, wire.ErrBusy, wire.Span{}, "busy"))
						for _, b := range res {
							dstSend(b)
						}
						w.Net.Fired["peer.late"]++
					case 4: // two error frames
						dstSend(wire.EncError(id, wire.ErrBusy, wire.Span{}, "busy"))
						dstSend(wire.EncError(id, wire.ErrDeclined, wire.Span{}, "again"))
						w.Net.Fired["peer.dup"]++
					default: // never answers
						w.Net.Fired["peer.silent"]++
					}
				}()
			}
		})
		service = "rawsvc"
		spy.Add(service, hp)
	}
	w.describe("rawclient topo=%d relayMax=%v slow-reader=%v", topo, maxTO, slow)

	rp := w.newRawPeer("raw0", "10.0.9.1")
	rc, err := rp.Dial(target)
	if err != nil {
		panic("harness: dial " + err.Error())
	}
	if err := rc.Handshake(); err != nil {
		w.violate("C10", "handshake-failed", "conforming handshake failed: %v", err)
		return
	}
	n := 1 + scn(8)
	type reqPlan struct {
		id      uint32
		tag     string
		frames  [][]byte
		at      time.Duration
		cancel  time.Duration
		ttl     time.Duration
		timeout bool // the destination will not finish within the (clamped) ttl
		sent    bool
		sentAt  time.Duration // when the first frame (which carries the ttl) was written
		delay   time.Duration // how long the handler sits on it
	}
	var reqs []*reqPlan
	maxTTL := time.Duration(0)
	for i := 0; i < n; i++ {
		tag := fmt.Sprintf("q%d", i+1)
		rec := &CallRec{Spec: CallSpec{Tag: tag, Mode: "echo", Rs2: -1, Rs3: -1}}
		ttl := time.Duration(3+scn(150)) * w.Grid
		if ttl < 2*time.Millisecond {
			ttl = 2 * time.Millisecond
		}
		eff := ttl
		if maxTO > 0 && maxTO < eff {
			eff = maxTO
		}
		delay := time.Duration(0)
		switch scn(4) {
		case 0: // race completion against the deadline / relay timer
			delay = eff + time.Duration(scn(7)-4)*w.Grid
		case 1:
			delay = time.Duration(scn(20)) * w.Grid
		}
		if delay < 0 {
			delay = 0
		}
		rec.Spec.Delay = delay
		switch scn(8) {
		case 0:
			rec.Spec.Mode = "syserr"
			rec.Spec.Code = 5
			rec.Spec.Msg = "e"
		case 1:
			rec.Spec.Mode = "partialerr"
			rec.Spec.Code = 3
			rec.Spec.Msg = "p"
		case 2:
			rec.Spec.Mode = "chunky"
		case 3:
			rec.Spec.Mode = "blackhole"
		}
		if scnChance(1, 3) {
			rec.Spec.Rs2, rec.Spec.Rs3 = scn(3000), drawSize(150000)
		}
		if slow && i == 0 {
			rec.Spec.Mode = []string{"echo", "chunky"}[scn(2)]
			rec.Spec.Delay = 0
			rec.Spec.Rs2, rec.Spec.Rs3 = scn(3000), 70000+scn(200000)
			if scnChance(3, 4) {
				// ... so that the fragment the handler is blocked on is the response's last:
				// one frame with the writer, SendBufferSize frames queued, one more in hand
				rec.Spec.Rs3 = (1+sconn.SendBufferSize)*65400 + 1000 + scn(60000)
			}
			if ttl < 20*w.Grid {
				ttl += 20 * w.Grid
			}
		}
		p := &reqPlan{id: uint32(i + 1), tag: tag, at: time.Duration(scn(10)) * w.Grid, ttl: ttl, delay: rec.Spec.Delay}
		if slow && i > 0 && slowAlone {
			// the other requests come once the first one's fate is sealed
			p.at += reqs[0].at + reqs[0].ttl
		}
		if topo == 2 {
			dp := &destPlan{delay: delay, kind: scn(6), breakA1: scnChance(1, 3)}
			plans[tag] = dp
		}
		if scnChance(1, 5) && !(slow && i == 0) {
			p.cancel = time.Duration(scn(30)) * w.Grid
		}
		if topo == 0 && !slow && i > 0 && scnChance(1, 5) {
			// a caller that reuses the id of a request it still has in flight: whatever the
			// server makes of that, the wire still carries at most one terminal frame per id
			var busy []*reqPlan
			for _, q := range reqs {
				if q.delay >= 5*w.Grid {
					busy = append(busy, q)
				}
			}
			if len(busy) > 0 {
				q := busy[scn(len(busy))]
				p.id = q.id
				p.at = q.at + time.Duration(1+scn(3))*w.Grid
				w.Net.Fired["peer.duplicate-id"]++
			}
		}
		arg2 := append([]byte(rec.cmd()+"\n"), payload(tag, 2, scn(2000))...)
		spec := wire.CallSpec{Type: wire.TCallReq, ID: p.id, TTL: uint32(ttl / time.Millisecond), Service: service,
			Headers: []wire.KV{{K: "cn", V: "rawcaller"}, {K: "as", V: "raw"}}, CsumType: []byte{wire.CsumNone, wire.CsumCRC32, wire.CsumCRC32C}[scn(3)],
			Args: [3][]byte{[]byte("echo"), arg2, payload(tag, 3, drawSize(100000))}}
		if scnChance(1, 3) {
			spec.MaxFrame = 300 + scn(3000)
		}
		p.frames = wire.EncCall(spec)
		if ttl > maxTTL {
			maxTTL = ttl
		}
		reqs = append(reqs, p)
		w.describe("req %s id=%d ttl=%v mode=%s delay=%v frames=%d cancel=%v", tag, p.id, ttl, rec.Spec.Mode, delay, len(p.frames), p.cancel)
	}
	// writer tasks (frames of different ids interleave on the one socket) and one reader
	var fs []func()
	var sendQ sendLock
	for _, p := range reqs {
		p := p
		fs = append(fs, func() {
			sleep(p.at)
			for bi, b := range p.frames {
				sendQ.do(func() { rc.Send(b) })
				if bi == 0 {
					p.sentAt = simrt.Elapsed()
					p.sent = true
					// the server's deadline for this request: a target for injected stalls
					simrt.AddInstant(time.Now().Add(p.ttl / time.Millisecond * time.Millisecond))
				}
				if len(p.frames) > 1 && app(3) == 2 {
					sleep(time.Duration(app(3)) * w.Grid)
				}
			}
			w.probe("ops.done")
			if p.cancel > 0 {
				sleep(p.cancel)
				sendQ.do(func() { rc.Send(wire.EncCancel(p.id, 0, wire.Span{}, "raw cancel")) })
				w.Net.Fired["app.cancel"]++
			}
		})
	}
	done := false
	slowJit := time.Duration(scnPick(-1, -1, -2, -3, 0, 0, 1)) * w.Grid
	fs = append(fs, func() {
		if slow {
			for !reqs[0].sent {
				sleep(w.Grid)
			}
			// (the ttl travels in whole milliseconds)
			if d := reqs[0].sentAt + reqs[0].ttl/time.Millisecond*time.Millisecond + slowJit - simrt.Elapsed(); d > 0 {
				sleep(d)
			}
			w.event("reader-resumes", "slow reader resumes (jitter %v around the deadline of q1)", slowJit)
			w.probe("rawclient.reader-resumed-at-deadline")
		}
		for !done {
			if _, err := rc.ReadFrame(100 * time.Millisecond); err != nil {
				if ne, ok := err.(*netError); !ok || !ne.timeout {
					return
				}
			}
		}
	})
	fs = append(fs, func() {
		sleep(maxTTL + 40*time.Second)
		// injected stalls can stretch the workload itself beyond any fixed window (one run
		// had 38 s of them): no more of them from here on, and the collection ends only once
		// the wire has been silent for five seconds
		w.stopLags()
		w.settle(5 * time.Second)
		done = true
	})
	w.tasks(fs...)
	// relay rule: if the response did not finish within the (clamped) ttl the
	// caller got exactly one timeout error frame (the tap automaton already
	// rejects anything after it)
	if topo == 2 {
		for _, p := range reqs {
			dp := plans[p.tag]
			if dp == nil || p.cancel > 0 {
				continue
			}
			w.eval("C10.relay-timeout-rule")
			var errs, resLast int
			for _, f := range rc.Got {
				if f.ID != p.id {
					continue
				}
				if f.Type == wire.TError {
					errs++
				}
				if (f.Type == wire.TCallRes || f.Type == wire.TCallResCont) && !f.More() {
					resLast++
				}
			}
			if dp.kind == 5 || dp.kind == 1 {
				// the destination never completes: exactly one error frame, code timeout
				if errs != 1 || resLast != 0 {
					w.violate("C10", "relay-timeout-not-single-error", "request %s (id %d): destination never completed, caller received %d error frames and %d final response fragments", p.tag, p.id, errs, resLast)
				} else {
					for _, f := range rc.Got {
						tombsFull := false
						for _, n := range w.Nodes {
							if n.LogMsgs["Too many tombstones, deleting relay item immediately."] > 0 {
								tombsFull = true
							}
						}
						if tombsFull {
							// the (configured, tiny) tombstone limit overflowed: items are then deleted at
							// once instead of being kept as tombstones, and a late fragment of a timed-out
							// call is answered "not found" by design
							w.probe("C10.tombstone-limit-overflowed")
							continue
						}
						if simrt.Cur().Stalled() >= 3*time.Second {
							// a goroutine of the relay was held back for longer than the relay's tombstone
							// period: by then the relay has rightfully forgotten the call, and a late
							// fragment of it is answered "not found" (still exactly one terminal frame)
							w.probe("C10.stall-beyond-tombstone-period")
							continue
						}
						if f.ID == p.id && f.Type == wire.TError && f.ErrCode != wire.ErrTimeout {
							w.violate("C10", "relay-timeout-wrong-code", "request %s (id %d): destination never completed, caller got error code %#x instead of timeout", p.tag, p.id, f.ErrCode)
						}
					}
				}
			}
			if dp.kind == 0 && errs == 0 && resLast == 1 && dp.sent[1] != nil {
				// C08: what the destination produced is what the caller got, frame layout aside
				w.eval("C08.raw-destination-response")
				re := wire.NewReassembler()
				startsWithCallRes, nres := false, 0
				for _, f := range rc.Got {
					if f.ID == p.id && (f.Type == wire.TCallRes || f.Type == wire.TCallResCont) {
						if nres == 0 {
							startsWithCallRes = f.Type == wire.TCallRes
						}
						nres++
						re.Add(f)
					}
				}
				if !startsWithCallRes {
					w.violate("C08", "relayed-response-differs", "request %s (id %d): the raw destination sent a complete response (first frame ends after arg1: %v); what the relay passed on does not begin with a call res frame (its response code, tracing and transport headers are lost)", p.tag, p.id, dp.breakA1)
				} else if re.Err != nil || !re.Done || string(re.Args[1]) != string(dp.sent[1]) || string(re.Args[2]) != string(dp.sent[2]) {
					w.violate("C08", "relayed-response-differs", "request %s (id %d): the raw destination sent a complete response (first frame ends after arg1: %v); what the relay passed on reassembles to err=%v done=%v arg2 %s arg3 %s",
						p.tag, p.id, dp.breakA1, re.Err, re.Done, diffDesc(re.Args[1], dp.sent[1]), diffDesc(re.Args[2], dp.sent[2]))
				}
			}
			if errs+resLast > 1 {
				w.violate("C10", "two-terminals", "request %s (id %d): caller received %d error frames and %d final response fragments", p.tag, p.id, errs, resLast)
			}
		}
	}
	rc.c.Close()
	if spy != nil {
		spy.checkEnded()
	}
	w.quiesce(5*time.Second, true)
}

// sendLock serialises whole-frame writes of several tasks onto one socket
// (sync.Mutex is rewritten to the scheduler-aware mutex by the instrumenter).
type sendLock struct{ mu sync.Mutex }

func (l *sendLock) do(f func()) {
	l.mu.Lock()
	defer l.mu.Unlock()
	f()
}
