#!/bin/bash
# seedcheck.sh <id> <check-ids...>
# re-runs the given checks against /repo with /verif/seeded/<id>/patch.diff applied (undone straight afterwards)
# and rewrites /verif/seeded/<id>/checks.txt. Used after a check was strengthened.
ID="$1"; shift; CHECKS="$@"
OUT=/verif/seeded/$ID
[ -z "$(git -C /repo status --short)" ] || { echo "/repo not clean"; exit 2; }
P=$OUT/patch.diff; [ -f $OUT/patch.rebased.diff ] && P=$OUT/patch.rebased.diff  # same change re-made on the current tree after a later fix touched the same lines
git -C /repo apply $P || { echo "cannot apply to /repo"; exit 2; }
trap 'git -C /repo checkout -- .' EXIT
echo "# checks run with the patch applied to /repo $(git -C /repo rev-parse --short HEAD), machinery $(git -C /verif rev-parse --short HEAD)" > $OUT/checks.txt
for c in $CHECKS; do
  r=$(/verif/check $c quick 2>&1); rc=$?
  echo "== $c quick rc=$rc" >> $OUT/checks.txt; echo "$r" | grep "by rule\|^VIOLATION\|^  rule\|quick:" | cut -c1-300 >> $OUT/checks.txt
  if [ $rc -eq 0 ]; then
    r=$(/verif/check $c quick -runs 12000 -nomin 2>&1); rc=$?
    echo "== $c 12000 runs rc=$rc" >> $OUT/checks.txt; echo "$r" | grep "by rule\|^VIOLATION\|^  rule\|quick:" | cut -c1-300 >> $OUT/checks.txt
  fi
done
cat $OUT/checks.txt
