package vsim

import (
	"fmt"
	"time"

	tchannel "github.com/uber/tchannel-go"
)

func init() { families["pressure"] = famPressure }

// famPressure: back-pressure. Tiny send buffers, small socket capacity and a
// stall (or cut) placed inside a many-frame request or response, so that
// callers and handlers sit blocked on a full send queue or a full socket when
// their deadline passes. Direct or through one relay; the fault is placed on a
// drawn hop and direction. Serves C05 (control returns by the deadline), C11
// and C12 (what was queued is released).
func famPressure(w *World) {
	w.Grid = time.Millisecond
	w.NoFault = false
	w.drawSchedule(true)
	w.linkDefaults()
	relayed := scnChance(1, 3)
	small := func() tchannel.ConnectionOptions {
		co := w.connOptsBig()
		co.SendCancelOnContextCanceled = scnChance(1, 2)
		co.PropagateCancel = scnChance(1, 2)
		if !scnChance(1, 5) {
			co.SendBufferSize = 1 + scn(4)
			w.Net.Fired["buf.small"]++
		}
		return co
	}
	var client, server *Node
	var topo *relayTopo
	target := ""
	via := "direct"
	if relayed {
		t := w.buildRelayTopoConn(1, 1, 1, small, small, nil)
		topo = t
		client, server = t.clients[0], t.servers[0]
		target = t.relays[0].HostPort
		via = "relay x1"
	} else {
		server = w.addNode(NodeOpts{Name: "s0", Service: "svc0", Host: "10.0.2.1", Port: 5000, Conn: small()})
		server.Ch.Register(&echoHandler{w: w, n: server}, "echo")
		client = w.addNode(NodeOpts{Name: "c0", Service: "client0", Host: "10.0.3.1", Conn: small()})
		target = server.HostPort
	}

	// the fault: which link (in creation order), which direction, where and what
	capacity := []int{4 << 10, 8 << 10, 16 << 10, 64 << 10}[scn(4)]
	hop := 0
	if relayed {
		hop = scn(2)
	}
	dir := scn(2)
	kind := scnPick(int(FStall), int(FStall), int(FStall), int(FCut), int(FHalfClose))
	var dur time.Duration // 0 = until the run quiesces
	if scnChance(1, 3) {
		dur = time.Duration(5+scn(300)) * w.Grid
	}
	big := 100000 + scn(900000)
	off := int64(150 + scn(big+big/4))
	nlink := 0
	prev := w.linkHook
	w.linkHook = func(l *Link) {
		if prev != nil {
			prev(l)
		}
		if w.QuiesceStarted {
			return
		}
		for d := 0; d < 2; d++ {
			l.SetCapacity(d, capacity)
		}
		if nlink == hop {
			f := &Fault{Kind: FaultKind(kind), Off: off, Dur: dur}
			f.Desc = fmt.Sprintf("pressure at off %d dir %d dur %v", off, dir, dur)
			l.AddFault(dir, f)
		}
		nlink++
	}
	w.describe("pressure relayed=%v capacity=%d fault=%s hop=%d dir=%d off=%d dur=%v big=%d", relayed, capacity, faultNames[FaultKind(kind)], hop, dir, off, dur, big)

	ntasks := 1 + scn(3)
	maxTimeout := time.Duration(0)
	var fs []func()
	for ti := 0; ti < ntasks; ti++ {
		ncalls := 1 + scn(2)
		var recs []*CallRec
		for c := 0; c < ncalls; c++ {
			s := CallSpec{From: client, To: target, Service: server.Service, Via: via,
				Timeout: time.Duration(10+scn(400)) * w.Grid, Pad2: drawSize(60000), Len3: scn(2000), Rs2: -1, Rs3: -1,
				WritePat: scn(4), ReadPat: scnPick(0, 0, 2), Mode: "echo"}
			switch scn(3) {
			case 0: // many-frame request
				s.Len3 = big/2 + scn(big/2+1)
			case 1: // many-frame response to a small request
				s.Rs2, s.Rs3 = drawSize(60000), big/2+scn(big/2+1)
			default: // both
				s.Len3 = big/2 + scn(big/2+1)
			}
			if scnChance(1, 4) {
				s.Mode = "chunky"
			}
			if scnChance(1, 4) {
				s.Delay = time.Duration(scn(30)) * w.Grid
			}
			if scnChance(1, 4) {
				s.CancelAfter = time.Duration(scn(100)) * w.Grid
			}
			if s.Timeout > maxTimeout {
				maxTimeout = s.Timeout
			}
			r := w.newCall(s)
			recs = append(recs, r)
			w.describe("call %s timeout=%v a2=%d a3=%d rs=%d/%d wp=%d rp=%d mode=%s delay=%v cancel=%v", r.Spec.Tag, s.Timeout, s.Pad2, s.Len3, s.Rs2, s.Rs3, s.WritePat, s.ReadPat, s.Mode, s.Delay, s.CancelAfter)
		}
		gap := time.Duration(scn(5)) * w.Grid
		fs = append(fs, func() {
			for _, r := range recs {
				w.Call(r)
				if gap > 0 {
					sleep(gap)
				}
			}
		})
	}
	w.tasks(fs...)
	if topo != nil {
		w.checkRelayWire(topo)
		w.quiesceRelay(topo, maxTimeout) // waits out the relay's tombstone period too
		return
	}
	w.quiesce(maxTimeout+50*w.Grid+2*time.Second, true)
}
