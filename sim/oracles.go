package vsim

import (
	"bytes"
	"fmt"
	"strings"
	"time"

	tchannel "github.com/uber/tchannel-go"
	"github.com/uber/tchannel-go/simrt"
	"vsim/wire"
)

// wireOracle judges every frame a REAL node emits, as seen by the tap (the
// sender's bytes, decoded by the independent codec).
type wireOracle struct {
	w    *World
	dirs map[*Link]*[2]*dirState
	// per call tag: request messages seen on the wire, in emission order
	reqByTag map[string][]*wireMsg
	resByTag map[string][]*wireMsg
}

type wireMsg struct {
	link    *Link
	dir     int
	emitter string
	first   *TapFrame
	last    *TapFrame
	re      *wire.Reassembler
	frames  int
	isRes   bool
	tag     string
	bad     bool // already reported / not judgeable: skip the rest of the message
}

type dirState struct {
	open map[uint64]*wireMsg // call messages of this direction whose last fragment has not been emitted (key: id, request/response)
	// request ids emitted in this direction that have not yet seen a terminal in the other direction
	inflight map[uint32]bool
	// response-side automaton for ids requested from the OTHER direction:
	// 0 = requested, 1 = response started, 2 = terminal seen
	resp       map[uint32]int
	terminal   map[uint32]string
	terminalEv map[uint32]int64 // event at which the terminal frame was written
	tainted    map[uint32]bool
}

func newDirState() *dirState {
	return &dirState{open: map[uint64]*wireMsg{}, inflight: map[uint32]bool{}, resp: map[uint32]int{}, terminal: map[uint32]string{}, terminalEv: map[uint32]int64{}, tainted: map[uint32]bool{}}
}

func newWireOracle(w *World) *wireOracle {
	return &wireOracle{w: w, dirs: map[*Link]*[2]*dirState{}, reqByTag: map[string][]*wireMsg{}, resByTag: map[string][]*wireMsg{}}
}

func (l *Link) emitter(dir int) string {
	if dir == 0 {
		return l.A.Owner
	}
	return l.B.Owner
}

func isRealNode(owner string) bool { return owner != "" && !strings.HasPrefix(owner, "raw") }

func (w *World) onFrame(tf *TapFrame) {
	if w.cfg.Trace {
		w.event("frame", "link%d dir%d #%d by %s: %v err=%v", tf.Conn.ID, tf.Dir, tf.Seq, tf.Conn.emitter(tf.Dir), tf.F, tf.Err)
	}
	w.wireOr.frame(tf)
}

func (o *wireOracle) state(l *Link) *[2]*dirState {
	st := o.dirs[l]
	if st == nil {
		st = &[2]*dirState{newDirState(), newDirState()}
		o.dirs[l] = st
	}
	return st
}

func (o *wireOracle) frame(tf *TapFrame) {
	w := o.w
	em := tf.Conn.emitter(tf.Dir)
	real := isRealNode(em)
	st := o.state(tf.Conn)
	me, other := st[tf.Dir], st[1-tf.Dir]
	f := tf.F
	where := fmt.Sprintf("link%d dir%d frame#%d emitted by %s", tf.Conn.ID, tf.Dir, tf.Seq, em)

	if real {
		// C06 (encode direction): every emitted frame parses under the independent
		// reading of the specification, header size == bytes on the wire
		w.eval("C06.emitted-frame")
		if tf.Err != nil {
			w.violate("C06", "emitted-frame-undecodable", "%s: %v (%d bytes: % x...)", where, tf.Err, len(f.Raw), f.Raw[:min(len(f.Raw), 48)])
			return
		}
		// ... and its reserved header bytes are zero, as an encoder written from the
		// specification leaves them (a relay passes a forwarded frame's header on as it came)
		if n := w.node(em); n != nil && n.Opts.Relay == nil && len(f.Raw) >= wire.HeaderSize {
			zero := f.Raw[3] == 0
			for i := 8; i < 16; i++ {
				zero = zero && f.Raw[i] == 0
			}
			if !zero {
				w.violate("C06", "reserved-bytes-not-zero", "%s: %s carries reserved header bytes % x / % x (stale bytes of a frame received earlier from some peer?)", where, wire.TypeName(f.Type), f.Raw[3:4], f.Raw[8:16])
			}
		}
	} else if tf.Err != nil {
		return // hostile bytes: nothing to judge on the sender side
	}

	switch f.Type {
	case wire.TCallReq, wire.TCallReqCont, wire.TCallRes, wire.TCallResCont:
		isRes := f.Type == wire.TCallRes || f.Type == wire.TCallResCont
		isFirst := f.Type == wire.TCallReq || f.Type == wire.TCallRes
		if real {
			w.eval("C01.frame-shape")
			if len(f.Raw) > wire.MaxFrameSize {
				w.violate("C01", "frame-too-large", "%s: %d bytes", where, len(f.Raw))
			}
			if len(f.Chunks) == 0 {
				w.violate("C01", "frame-without-chunk", "%s: %s", where, f)
			}
		}
		okey := uint64(f.ID) << 1
		if isRes {
			okey |= 1 // requests and responses emitted in one direction use the two sides' independent id spaces
		}
		m := me.open[okey]
		if isFirst {
			if m != nil && real {
				// a new first frame while the previous message with this id is unfinished
				w.violate("C04", "id-reused-in-flight", "%s: %s starts while a message with the same id is still being sent", where, f)
			}
			m = &wireMsg{link: tf.Conn, dir: tf.Dir, emitter: em, first: tf, re: wire.NewReassembler(), isRes: isRes}
			me.open[okey] = m
			if !isRes {
				if me.inflight[f.ID] && real {
					w.violate("C04", "id-reused-in-flight", "%s: request id %d is already in flight on this connection", where, f.ID)
				}
				if me.inflight[f.ID] {
					other.tainted[f.ID] = true
				}
				me.inflight[f.ID] = true
				other.resp[f.ID] = 0
				delete(other.terminal, f.ID)
			}
		} else if m == nil && !(isRes && real && !me.tainted[f.ID] && me.resp[f.ID] == 2) {
			if real {
				if isRes {
					w.violate("C10", "continuation-without-start", "%s: %s without a preceding call-res frame", where, f)
				} else {
					w.violate("C01", "continuation-without-start", "%s: %s without a preceding call-req frame", where, f)
				}
			}
			return
		}
		if isRes && real && !me.tainted[f.ID] {
			// C10: per-id response grammar on the caller-side wire
			w.eval("C10.response-frame")
			stt, requested := me.resp[f.ID]
			switch {
			case !requested:
				w.violate("C10", "response-for-unrequested-id", "%s: %s but id %d was never requested on this connection", where, f, f.ID)
			case stt == 2:
				w.violate("C10", "frame-after-terminal", "%s: %s after the terminal frame (%s) of id %d; %s", where, f, me.terminal[f.ID], f.ID, o.lateFrameOrigin(tf, me.terminalEv[f.ID]))
				return
			case isFirst && stt == 1:
				w.violate("C10", "second-call-res", "%s: %s but a response for id %d had already started", where, f, f.ID)
			case !isFirst && stt == 0:
				w.violate("C10", "continuation-without-start", "%s: %s before any call-res of id %d", where, f, f.ID)
			default:
				if f.More() {
					me.resp[f.ID] = 1
				} else {
					me.resp[f.ID] = 2
					me.terminal[f.ID] = "last response fragment"
					me.terminalEv[f.ID] = tf.WEv
					delete(other.inflight, f.ID)
				}
			}
		}
		if m == nil {
			return
		}
		m.frames++
		m.last = tf
		if m.bad {
			if !f.More() {
				delete(me.open, okey)
			}
			return
		}
		m.re.Add(f)
		// a relay forwards what it received: once a byte was altered upstream, what the
		// relay re-emits is not the relay's doing
		if real && w.corruptFrame != nil && w.node(em) != nil && w.node(em).Opts.Relay != nil {
			if m.re.Err != nil {
				m.bad = true
			}
			if !f.More() {
				delete(me.open, okey)
			}
			return
		}
		if real {
			// C02 conformance: the carried checksum equals the independently computed
			// running CRC over all argument bytes up to and including this fragment
			if f.CsumType == wire.CsumCRC32 || f.CsumType == wire.CsumCRC32C {
				w.eval("C02.checksum-conformance")
			}
			if m.re.Err != nil {
				msg := m.re.Err.Error()
				switch {
				case strings.Contains(msg, "checksum"):
					w.violate("C02", "checksum-nonconforming", "%s: %s: %v", where, f, m.re.Err)
				default:
					w.violate("C01", "malformed-message", "%s: %s: %v", where, f, m.re.Err)
				}
				m.bad = true
				if !f.More() {
					delete(me.open, okey)
				}
				return
			}
		}
		if !f.More() {
			delete(me.open, okey)
			o.complete(m)
		}
	case wire.TError:
		if real && f.ID != 0xFFFFFFFF && !me.tainted[f.ID] {
			stt, requested := me.resp[f.ID]
			if requested {
				w.eval("C10.response-frame")
				if stt == 2 {
					w.violate("C10", "frame-after-terminal", "%s: %s after the terminal frame (%s) of id %d; %s", where, f, me.terminal[f.ID], f.ID, o.lateFrameOrigin(tf, me.terminalEv[f.ID]))
				} else {
					me.resp[f.ID] = 2
					me.terminal[f.ID] = fmt.Sprintf("error frame code %#x", f.ErrCode)
					me.terminalEv[f.ID] = tf.WEv
					delete(other.inflight, f.ID)
					// an unfinished response message of this id ends here
					delete(me.open, uint64(f.ID)<<1|1)
				}
			}
		}
	}
}

// lateFrameOrigin says, for a frame a relay emitted after the terminal frame of
// its id, whether the relay had already READ that frame from its source
// connection when it wrote the terminal (an in-flight race) or read it only
// afterwards (a frame that should have met a tombstone).
func (o *wireOracle) lateFrameOrigin(late *TapFrame, terminalEv int64) string {
	em := late.Conn.emitter(late.Dir)
	var src *TapFrame
	for _, l := range o.w.Net.Links {
		for d := 0; d < 2; d++ {
			recv := l.B.Owner
			if d == 1 {
				recv = l.A.Owner
			}
			if recv != em || l == late.Conn {
				continue
			}
			// the relay forwards in order: among source frames with this very payload, the late
			// frame is the one after those it has already re-emitted on the caller's link
			already := 0
			for _, pf := range late.Conn.Frames[late.Dir] {
				if pf.Seq >= late.Seq {
					break
				}
				if pf.F != nil && pf.F.Type == late.F.Type && pf.F.ID == late.F.ID && len(pf.F.Raw) == len(late.F.Raw) &&
					string(pf.F.Raw[wire.HeaderSize:]) == string(late.F.Raw[wire.HeaderSize:]) {
					already++
				}
			}
			var cands []*TapFrame
			for _, tf := range l.Frames[d] {
				if tf.REv == 0 || tf.REv > late.WEv || tf.F == nil || len(tf.F.Raw) != len(late.F.Raw) || tf.F.Type != late.F.Type {
					continue
				}
				if string(tf.F.Raw[wire.HeaderSize:]) == string(late.F.Raw[wire.HeaderSize:]) {
					cands = append(cands, tf)
				}
			}
			// (frames of other calls with the same payload are rare enough to ignore: ids differ
			// per call on the source link, so keep only the id most candidates share)
			byID := map[uint32][]*TapFrame{}
			for _, c := range cands {
				byID[c.F.ID] = append(byID[c.F.ID], c)
			}
			for _, id := range simrt.SortedKeys(byID) {
				cs := byID[id]
				if already < len(cs) && (src == nil || cs[already].REv > src.REv) {
					src = cs[already]
				}
			}
		}
	}
	if src == nil {
		return "source frame not identified"
	}
	if src.REv < terminalEv {
		return fmt.Sprintf("the relay had read this frame (#%d) BEFORE it wrote the terminal (#%d): in-flight race", src.REv, terminalEv)
	}
	return fmt.Sprintf("the relay read this frame (#%d) AFTER it wrote the terminal (#%d)", src.REv, terminalEv)
}

// complete is called when the last fragment of a call message was emitted.
func (o *wireOracle) complete(m *wireMsg) {
	w := o.w
	if !m.re.Done {
		return
	}
	var a2 []byte = m.re.Args[1]
	if m.isRes {
		if bytes.HasPrefix(a2, []byte("r;")) {
			if i := bytes.IndexByte(a2, '\n'); i > 0 {
				m.tag = string(a2[2:i])
			}
		}
		if m.tag != "" {
			o.resByTag[m.tag] = append(o.resByTag[m.tag], m)
		}
		return
	}
	cmd, _, _ := parseArg2(false, a2)
	if cmd == nil {
		cmd, _, _ = parseArg2(true, a2)
	}
	if cmd == nil {
		return
	}
	m.tag = cmd["tag"]
	o.reqByTag[m.tag] = append(o.reqByTag[m.tag], m)
	rec := w.callTag[m.tag]
	if rec == nil || !isRealNode(m.emitter) {
		return
	}
	// C01(b): independent re-assembly of what was emitted equals what was written
	w.eval("C01.wire-reassembly")
	want2 := rec.Req2
	if h := rec.Req2Hop[m.emitter]; h != nil {
		want2 = h // a relay that appended to arg2
	}
	if !bytes.Equal(m.re.Args[1], want2) || !bytes.Equal(m.re.Args[2], rec.Req3) || string(m.re.Args[0]) != rec.Spec.Method {
		if !rec.Spec.NoCheck {
			d := fmt.Sprintf("request %s emitted by %s reassembles to arg1 %q arg2 %s arg3 %s", m.tag, m.emitter,
				trunc(string(m.re.Args[0]), 20), diffDesc(m.re.Args[1], want2), diffDesc(m.re.Args[2], rec.Req3))
			if m.emitter == rec.Spec.From.Name {
				w.violate("C01", "wire-reassembly-differs", "%s", d)
			} else {
				w.violate("C08", "relayed-request-differs", "%s", d)
			}
		}
	}
	if m.emitter == rec.Spec.From.Name {
		// C14/C06: ttl on the first hop is bracketed by the remaining time at BeginCall
		w.eval("C14.ttl-first-hop")
		ttl := time.Duration(m.first.F.TTL) * time.Millisecond
		hi := (rec.Deadline - rec.TIn) / time.Millisecond * time.Millisecond
		if ttl > hi {
			w.violate("C14", "ttl-exceeds-remaining", "call %s: ttl on the wire %v, caller had at most %v left when the call began", m.tag, ttl, rec.Deadline-rec.TIn)
		}
		if ttl == 0 {
			w.violate("C14", "ttl-zero-sent", "call %s: a call request with ttl 0 was emitted", m.tag)
		}
		// lower bracket: remaining time when BeginCall returned (minus injected stall)
		lo := (rec.Deadline - m.first.WAt) / time.Millisecond * time.Millisecond
		if ttl+time.Millisecond < lo && m.first.WAt >= rec.TIn {
			// ttl may legitimately be smaller only by the time spent connecting; it was
			// fixed before the first frame was written, so it cannot be smaller than what
			// was left when that frame hit the wire
			w.violate("C14", "ttl-too-small", "call %s: ttl %v but %v remained when the first frame was written", m.tag, ttl, rec.Deadline-m.first.WAt)
		}
	}
}

// ---- end-of-run oracles ----

// checkQuiescent is evaluated after the workload, after faults stopped and all
// deadlines and the tombstone period passed (C11 first half).
func (w *World) checkQuiescent() {
	for _, n := range w.Nodes {
		if n.Dead {
			continue
		}
		w.eval("C11.quiescent-state")
		st := n.Ch.IntrospectState(&tchannel.IntrospectionOptions{IncludeExchanges: true, IncludeTombstones: true})
		for _, c := range st.InactiveConnections {
			w.checkConnQuiescent(n, "inactive", c)
		}
		for _, hp := range sortedKeys(st.RootPeers) {
			p := st.RootPeers[hp]
			for _, c := range p.InboundConnections {
				w.checkConnQuiescent(n, "peer "+hp+" inbound", c)
			}
			for _, c := range p.OutboundConnections {
				w.checkConnQuiescent(n, "peer "+hp+" outbound", c)
			}
		}
	}
}

func (w *World) checkConnQuiescent(n *Node, where string, c tchannel.ConnectionRuntimeState) {
	id := fmt.Sprintf("node %s conn %d (%s -> %s) %s", n.Name, c.ID, c.LocalHostPort, c.RemoteHostPort, where)
	if c.InboundExchange.Count != 0 || c.OutboundExchange.Count != 0 {
		w.violate("C11", "leftover-exchange", "%s: %d inbound / %d outbound message exchanges remain after quiescence: %v %v", id,
			c.InboundExchange.Count, c.OutboundExchange.Count, exIDs(c.InboundExchange), exIDs(c.OutboundExchange))
	}
	r := c.Relayer
	if r.Count != 0 || r.InboundItems.Count != 0 || r.OutboundItems.Count != 0 || len(r.InboundItems.Items) != 0 || len(r.OutboundItems.Items) != 0 {
		w.violate("C11", "leftover-relay-item", "%s: relayer count=%d inbound items=%d(%d listed) outbound items=%d(%d listed) after quiescence", id,
			r.Count, r.InboundItems.Count, len(r.InboundItems.Items), r.OutboundItems.Count, len(r.OutboundItems.Items))
		w.violate("C09", "relay-not-forgotten", "%s: relayer count=%d inbound items=%d outbound items=%d after quiescence", id, r.Count, r.InboundItems.Count+len(r.InboundItems.Items), r.OutboundItems.Count+len(r.OutboundItems.Items))
	}
	if c.ConnectionState == "connectionClosed" {
		w.violate("C11", "closed-connection-retained", "%s is fully closed but still tracked", id)
	}
}

func exIDs(e tchannel.ExchangeSetRuntimeState) []string { return sortedKeys(e.Exchanges) }

// checkPools is the end-of-run part of C12.
func (w *World) checkPools(faultFree bool) {
	// "on calls that complete without a fault every frame is handed back": the
	// strict half applies to runs in which no fault was injected AND every call
	// ran to completion (a response or a handler-sent error; no timeout, no
	// cancellation, no relay-originated failure)
	for _, c := range w.Calls {
		if !c.Done || !c.completedNormally() {
			faultFree = false
		}
		if c.Spec.Mode == "respfirst" || (c.H.Entered && !c.H.ArgsRead) {
			// a handler that answers without consuming its whole request leaves request frames
			// queued that nobody will read: application behaviour, not a clean completion
			faultFree = false
		}
	}
	if faultFree {
		w.probe("C12.clean-run")
	}
	for _, n := range w.Nodes {
		w.eval("C12.outstanding")
		if out := n.Pool.Outstanding(); out != 0 {
			w.Probes["C12.outstanding-frames"] += out
			if faultFree {
				w.violate("C12", "frame-not-returned", "node %s: %d of %d frames were never handed back in a run without faults", n.Name, out, n.Pool.Gets)
			}
		}
	}
}

func min(a, b int) int {
	if a < b {
		return a
	}
	return b
}
