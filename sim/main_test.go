package vsim

import (
	"encoding/json"
	"fmt"
	"os"
	"path/filepath"
	"runtime"
	"runtime/coverage"
	"testing"
	"testing/synctest"
	"time"
)

// TestSim runs exactly one simulated run, described by the JSON file named in
// VSIM_SPEC, and writes its result to VSIM_OUT. One run = one bubble = one OS
// process.
func TestSim(t *testing.T) {
	specPath := os.Getenv("VSIM_SPEC")
	if specPath == "" {
		t.Skip("VSIM_SPEC not set")
	}
	var spec RunSpec
	b, err := os.ReadFile(specPath)
	if err != nil {
		fmt.Fprintln(os.Stderr, "vsim: cannot read spec:", err)
		os.Exit(2)
	}
	if err := json.Unmarshal(b, &spec); err != nil {
		fmt.Fprintln(os.Stderr, "vsim: bad spec:", err)
		os.Exit(2)
	}
	// real-time watchdog, outside the bubble: a goroutine that never reaches a
	// scheduling point would otherwise hang the run forever
	wd := spec.WatchdogSec
	if wd <= 0 {
		wd = 120
	}
	go func() {
		time.Sleep(time.Duration(wd) * time.Second)
		buf := make([]byte, 1<<20)
		n := runtime.Stack(buf, true)
		fmt.Fprintf(os.Stderr, "VSIM-WATCHDOG: run did not finish in %ds of real time\n%s\n", wd, buf[:n])
		os.Exit(3)
	}()
	synctest.Test(t, func(t *testing.T) {
		res := runOne(spec)
		out, _ := json.Marshal(res)
		if p := os.Getenv("VSIM_OUT"); p != "" {
			if err := os.WriteFile(p, out, 0644); err != nil {
				fmt.Fprintln(os.Stderr, "vsim: cannot write result:", err)
				os.Exit(2)
			}
		} else {
			os.Stdout.Write(out)
			os.Stdout.Write([]byte("\n"))
		}
		dumpCoverage()
		// parked goroutines of an aborted run would make the bubble's exit
		// panic; the result is already written
		os.Exit(0)
	})
}

// dumpCoverage writes the statement counters of a coverage build (buildsim.sh
// ... cover; ./covreport.sh) into VSIM_COVDIR. One run = one process, and the
// run ends with os.Exit inside the bubble, so the testing package never gets to
// write a profile itself. The clock in the bubble is fake and process ids
// repeat: the counter file is renamed to carry the run's own identity.
func dumpCoverage() {
	dir := os.Getenv("VSIM_COVDIR")
	if dir == "" {
		return
	}
	tmp, err := os.MkdirTemp(dir, "w")
	if err != nil {
		return
	}
	defer os.RemoveAll(tmp)
	if err := coverage.WriteMetaDir(tmp); err != nil {
		os.WriteFile(filepath.Join(dir, "error.txt"), []byte(err.Error()), 0644)
		return
	}
	if err := coverage.WriteCountersDir(tmp); err != nil {
		os.WriteFile(filepath.Join(dir, "error.txt"), []byte(err.Error()), 0644)
		return
	}
	ents, _ := os.ReadDir(tmp)
	for _, e := range ents {
		n := e.Name()
		if len(n) > 8 && n[:8] == "covmeta." {
			if _, err := os.Stat(filepath.Join(dir, n)); err != nil {
				os.Rename(filepath.Join(tmp, n), filepath.Join(dir, n))
			}
		} else if len(n) > 12 && n[:12] == "covcounters." {
			// covcounters.<metahash>.<pid>.<nanotime>
			var hash string
			for i := 12; i < len(n); i++ {
				if n[i] == '.' {
					hash = n[12:i]
					break
				}
			}
			os.Rename(filepath.Join(tmp, n), filepath.Join(dir, fmt.Sprintf("covcounters.%s.%d.%s", hash, os.Getpid(), filepath.Base(tmp)[1:])))
		}
	}
}
