package vsim

import (
	"context"
	"errors"
	"fmt"
	"io"
	"net"
	"time"

	"github.com/uber/tchannel-go/simrt"
	"vsim/wire"
)

// simnet: an in-memory network of reliable byte streams with injectable
// faults. It is written directly against simrt: code between scheduling points
// is atomic, blocking goes through simrt.WaitQueue so the scheduler knows who
// waits for what.

type Addr string

func (a Addr) Network() string { return "tcp" }
func (a Addr) String() string  { return string(a) }

type netError struct {
	msg     string
	timeout bool
}

func (e *netError) Error() string   { return e.msg }
func (e *netError) Timeout() bool   { return e.timeout }
func (e *netError) Temporary() bool { return e.timeout }

var (
	errClosedConn = &netError{msg: "simnet: use of closed network connection"}
	errReset      = &netError{msg: "simnet: connection reset by peer"}
	errTimeout    = &netError{msg: "simnet: i/o timeout", timeout: true}
	errRefused    = &netError{msg: "simnet: connection refused"}
)

// FaultKind enumerates transport faults.
type FaultKind int

const (
	FCut       FaultKind = iota // RST both directions when the stream reaches Off
	FHalfClose                  // receiver sees EOF after Off bytes; later bytes are discarded
	FStall                      // bytes from Off on are held for Dur (forever if Dur==0)
	FCorrupt                    // byte at Off is replaced (Mode: 0 xor Mask, 1 -> 0x00, 2 -> 0xff)
)

var faultNames = [...]string{"net.cut", "net.halfclose", "net.stall", "net.corrupt"}

// Fault is one planned transport fault on one direction of one connection.
type Fault struct {
	Kind FaultKind
	Off  int64 // absolute offset in the stream; -1 until resolved by Sel
	Dur  time.Duration
	Mode int
	Mask byte
	// Sel, when non-nil, is evaluated for every frame the sender emits on this
	// stream (before the fault is applied). It returns the offset inside the
	// frame to attach the fault to, or -1.
	Sel   func(tf *TapFrame) int
	Fired bool
	Desc  string
}

// DialFault decides what happens to a dial attempt.
type DialFault struct {
	Kind  int // 0 none, 1 refuse, 2 hang until ctx ends, 3 slow
	Delay time.Duration
	Count int // applies to this many attempts (-1 = all)
}

// TapFrame is one frame as emitted by a sender (before transport faults).
type TapFrame struct {
	Conn      *Link
	Dir       int // 0: dialer -> acceptor, 1: acceptor -> dialer
	Seq       int
	Off, End  int64
	F         *wire.Frame
	Err       error // independent decoder's verdict
	WEv       int64 // event number when written
	WAt       time.Duration
	REv       int64 // event number when the receiver had consumed it entirely (0 = never)
	RAt       time.Duration
	Corrupted bool
}

// Link is a connection: two endpoints, two pipes.
type Link struct {
	ID       int
	A, B     *Conn // A dialed, B accepted
	Frames   [2][]*TapFrame
	OpenedEv int64
	// CloseEv[i]: event at which endpoint i (0=A,1=B) closed its socket; 0 = open
	CloseEv [2]int64
	CloseAt [2]time.Duration // simulated time of that close
	CutEv   int64            // event at which a fault reset the link
	CutAt   time.Duration
	// EndSeenAt[i]: when endpoint i's reader was first told the stream had ended (EOF or reset); 0 = not yet
	EndSeenAt [2]time.Duration
}

type pipe struct {
	link      *Link
	dir       int
	q         simrt.WaitQueue
	buf       []byte
	inflight  int
	fin       bool // EOF once buf and inflight are drained
	finQueued bool
	rst       bool
	capacity  int
	// when the writer of this direction sat waiting because the peer was not reading
	waiting      bool
	waitSince    time.Duration
	blockedSpans [][2]time.Duration
	// a Write that was cut in the middle of its buffer (wseq numbers the Write calls)
	wseq, partial uint64
	mixed         bool
	lat           time.Duration
	jitter        int // extra 0..jitter grid ticks per segment
	lastAt        time.Time
	stallTill     time.Time
	stalled       bool // forever
	discard       bool // after half-close fault: swallow writes
	written       int64
	consumed      int64
	faults        []*Fault
	queue         []qseg
	pend          []byte // tap parse buffer
	pendOff       int64
	nextRead      int // index of first frame not yet fully consumed
	segmented     bool
}

// Conn is one endpoint; implements net.Conn.
type Conn struct {
	n             *Net
	link          *Link
	side          int // 0 = A (dialer), 1 = B (acceptor)
	local, remote Addr
	rd, wr        *pipe
	closed        bool
	rdl, wdl      time.Time
	Owner         string // node name for traces
	dialled       Addr   // the address the dialer asked for (may be an alias of the listener's)
}

// Net is the simulated network of one run.
// netIOSync: see Conn.Write (the analogue of internal/poll's ioSync).
var netIOSync uint64

type Net struct {
	w         *World
	listeners map[string]*Listener
	Links     []*Link
	ephemeral int
	DialFault map[string]*DialFault // by target host:port
	Alias     map[string]string     // dial address -> listener address (a TCP relay / NAT in front of a node)
	Gen       int64                 // bumped whenever a link appears, is closed by an end, or is reset
	// NewLinkHook configures each new link (latency, capacity, faults).
	NewLinkHook func(l *Link)
	Fired       map[string]int
	// LastData: when bytes last entered or left any socket (used to tell when traffic has ceased)
	LastData time.Time
}

func newNet(w *World) *Net {
	return &Net{w: w, listeners: map[string]*Listener{}, DialFault: map[string]*DialFault{}, Alias: map[string]string{}, Fired: map[string]int{}}
}

// Listener implements net.Listener.
type Listener struct {
	n       *Net
	addr    Addr
	q       simrt.WaitQueue
	backlog []*Conn
	closed  bool
}

func (n *Net) Listen(addr string) (*Listener, error) {
	if _, ok := n.listeners[addr]; ok {
		return nil, fmt.Errorf("simnet: address %s in use", addr)
	}
	l := &Listener{n: n, addr: Addr(addr)}
	n.listeners[addr] = l
	return l, nil
}

func (l *Listener) Accept() (net.Conn, error) {
	simrt.Yield("h/net.go:accept")
	for len(l.backlog) == 0 && !l.closed {
		l.q.Wait("accept " + string(l.addr))
	}
	if l.closed {
		return nil, errClosedConn
	}
	c := l.backlog[0]
	l.backlog = l.backlog[1:]
	return c, nil
}

func (l *Listener) Close() error {
	simrt.Yield("h/net.go:lclose")
	if l.closed {
		return errClosedConn
	}
	l.closed = true
	if l.n.listeners[string(l.addr)] == l {
		delete(l.n.listeners, string(l.addr))
	}
	// connections still in the backlog are reset
	for _, c := range l.backlog {
		c.link.reset(l.n, "listener closed")
	}
	l.backlog = nil
	l.q.WakeAll()
	return nil
}

func (l *Listener) Addr() net.Addr { return l.addr }

// Dial connects from a host (ip without port) to a listening address.
func (n *Net) Dial(ctx context.Context, fromHost, to string) (net.Conn, error) {
	simrt.Yield("h/net.go:dial")
	if df := n.DialFault[to]; df != nil && df.Count != 0 {
		if df.Count > 0 {
			df.Count--
		}
		switch df.Kind {
		case 1:
			n.Fired["net.refuse"]++
			return nil, errRefused
		case 2:
			n.Fired["net.dialhang"]++
			<-ctx.Done()
			return nil, ctx.Err()
		case 3:
			n.Fired["net.dialslow"]++
			t := time.NewTimer(df.Delay)
			select {
			case <-ctx.Done():
				t.Stop()
				return nil, ctx.Err()
			case <-t.C:
			}
		}
	}
	if err := ctx.Err(); err != nil {
		return nil, err
	}
	lto := to
	if a, ok := n.Alias[to]; ok {
		lto = a
	}
	l := n.listeners[lto]
	if l == nil || l.closed {
		return nil, errRefused
	}
	n.ephemeral++
	local := Addr(fmt.Sprintf("%s:%d", fromHost, 40000+n.ephemeral))
	link := &Link{ID: len(n.Links) + 1, OpenedEv: n.w.tick()}
	mk := func(dir int) *pipe { return &pipe{link: link, dir: dir, capacity: 256 << 10} }
	ab, ba := mk(0), mk(1)
	link.A = &Conn{n: n, link: link, side: 0, local: local, remote: Addr(to), rd: ba, wr: ab, dialled: Addr(to)}
	link.B = &Conn{n: n, link: link, side: 1, local: Addr(lto), remote: local, rd: ab, wr: ba}
	n.Links = append(n.Links, link)
	n.Gen++
	if n.NewLinkHook != nil {
		n.NewLinkHook(link)
	}
	l.backlog = append(l.backlog, link.B)
	l.q.WakeAll()
	return link.A, nil
}

func (p *pipe) other() *pipe {
	if p.dir == 0 {
		return p.link.A.rd
	}
	return p.link.B.rd
}

// reset aborts the link in both directions.
func (l *Link) reset(n *Net, why string) {
	n.Gen++
	if l.CutEv == 0 {
		l.CutEv = n.w.tick()
		l.CutAt = simrt.Elapsed()
	}
	for _, p := range []*pipe{l.A.wr, l.B.wr} {
		p.rst = true
		p.q.WakeAll()
	}
	simrt.Tracef("link %d reset: %s", l.ID, why)
}

// AddFault plans a fault on direction dir (0 = A->B).
func (l *Link) AddFault(dir int, f *Fault) {
	p := l.A.wr
	if dir == 1 {
		p = l.B.wr
	}
	p.faults = append(p.faults, f)
}

// Pipe parameters.
func (l *Link) SetLatency(dir int, lat time.Duration, jitter int) {
	p := l.A.wr
	if dir == 1 {
		p = l.B.wr
	}
	p.lat, p.jitter = lat, jitter
}

// WriterBlockedAt: was the writer of direction dir waiting for the peer to read at time t
// (since the run began)?
func (l *Link) WriterBlockedAt(dir int, t time.Duration) bool {
	p := l.A.wr
	if dir == 1 {
		p = l.B.wr
	}
	if p.waiting && p.waitSince <= t {
		return true
	}
	for _, sp := range p.blockedSpans {
		if sp[0] <= t && t <= sp[1] {
			return true
		}
	}
	return false
}

func (l *Link) SetCapacity(dir int, c int) {
	p := l.A.wr
	if dir == 1 {
		p = l.B.wr
	}
	p.capacity = c
}
func (l *Link) SetSegmented(dir int, on bool) {
	p := l.A.wr
	if dir == 1 {
		p = l.B.wr
	}
	p.segmented = on
}

// Heal ends every stall on the link (faults stop).
func (l *Link) Heal() {
	for _, p := range []*pipe{l.A.wr, l.B.wr} {
		if p.stalled || !p.stallTill.IsZero() {
			p.stalled = false
			p.stallTill = time.Time{}
		}
		for _, f := range p.faults {
			f.Fired = true // disarm
		}
		p.flushHeld()
	}
}

type qseg struct {
	at   time.Time
	data []byte
	fin  bool
}

// flushHeld delivers what a (now ended) stall was holding back.
func (p *pipe) flushHeld() {
	now := time.Now()
	for i := range p.queue {
		if p.queue[i].at.After(now) {
			p.queue[i].at = now
		}
	}
	p.lastAt = now
	p.pump()
}

// pump delivers, in order, every queued segment that is due. All deliveries of
// a pipe go through this one FIFO, so simultaneous timers cannot reorder bytes.
func (p *pipe) pump() {
	now := time.Now()
	woke := false
	for len(p.queue) > 0 && !p.stalled && !p.queue[0].at.After(now) {
		q := p.queue[0]
		p.queue = p.queue[1:]
		if q.fin {
			p.fin = true
		} else {
			p.buf = append(p.buf, q.data...)
			p.inflight -= len(q.data)
		}
		woke = true
	}
	if woke {
		p.q.WakeAll()
	}
}

func (c *Conn) Write(b []byte) (int, error) {
	simrt.Yield("h/net.go:write")
	p := c.wr
	w := c.n.w
	if c.closed {
		return 0, errClosedConn
	}
	if p.rst {
		return 0, errReset
	}
	// tap: the sender's view, before any fault
	p.tapFeed(w, b)
	c.n.LastData = time.Now()
	// race builds: like internal/poll, every socket write happens-before every later socket
	// read (what was done before sending a message is ordered before what its receipt causes)
	simrt.HBRelease(&netIOSync)
	total := 0
	p.wseq++
	wid := p.wseq
	defer func() {
		if p.partial == wid {
			p.partial = 0
		}
	}()
	for len(b) > 0 {
		for p.used() >= p.capacity && !p.rst && !p.discard && !c.closed && !deadlinePassed(c.wdl) {
			if !p.waiting {
				p.waiting, p.waitSince = true, simrt.Elapsed()
			}
			p.q.Wait(fmt.Sprintf("write link%d dir%d (peer not reading)", p.link.ID, p.dir))
		}
		if p.waiting {
			p.waiting = false
			p.blockedSpans = append(p.blockedSpans, [2]time.Duration{p.waitSince, simrt.Elapsed()})
		}
		if c.closed {
			return total, errClosedConn
		}
		if p.rst {
			return total, errReset
		}
		if deadlinePassed(c.wdl) {
			return total, errTimeout
		}
		n := len(b)
		if room := p.capacity - p.used(); n > room {
			n = room
		}
		if p.segmented && n > 1 && simrt.Chance(simrt.StrNet, 1, 3) {
			n = 1 + simrt.Draw(simrt.StrNet, n)
		}
		// next armed fault inside [written, written+n)
		var hit *Fault
		for _, f := range p.faults {
			if f.Fired || f.Off < 0 {
				continue
			}
			if f.Off < p.written+int64(n) && (hit == nil || f.Off < hit.Off) {
				hit = f
			}
		}
		if hit != nil && hit.Off > p.written {
			n = int(hit.Off - p.written)
			hit = nil
		}
		seg := b[:n]
		if hit != nil {
			hit.Fired = true
			c.n.Fired[faultNames[hit.Kind]]++
			w.event("fault", "%s link%d dir%d off=%d %s", faultNames[hit.Kind], p.link.ID, p.dir, hit.Off, hit.Desc)
			switch hit.Kind {
			case FCut:
				p.link.reset(c.n, "fault net.cut")
				return total, errReset
			case FHalfClose:
				p.discard = true
				p.queueFin()
			case FStall:
				if hit.Dur == 0 {
					p.stalled = true
				} else {
					p.stallTill = time.Now().Add(hit.Dur)
				}
				continue // re-evaluate the same bytes, now behind the stall
			case FCorrupt:
				cp := append([]byte(nil), seg...)
				switch hit.Mode {
				case 1:
					if cp[0] == 0 {
						cp[0] = 1
					} else {
						cp[0] = 0
					}
				case 2:
					if cp[0] == 0xff {
						cp[0] = 0xfe
					} else {
						cp[0] = 0xff
					}
				case 3: // a checksum type byte becomes another type with a checksum of the same size
					switch cp[0] {
					case 1:
						cp[0] = 3
					case 3:
						cp[0] = 1
					case 2:
						cp[0] = 1
					default:
						cp[0] ^= 2
					}
				default:
					m := hit.Mask
					if m == 0 {
						m = 1
					}
					cp[0] ^= m
				}
				seg = cp[:1]
				n = 1
				p.markCorrupted(hit.Off)
			}
		}
		if p.partial != 0 && p.partial != wid && !p.mixed {
			// two writers share this socket and one was cut in the middle of its buffer: the
			// byte stream is no longer what either of them wrote
			p.mixed = true
			c.n.Fired["net.writers-interleaved"]++
			w.event("net", "writers interleaved on link%d dir%d at off=%d", p.link.ID, p.dir, p.written)
			if isRealNode(c.Owner) {
				for _, prop := range []string{"C04", "C06"} {
					w.violate(prop, "writers-interleaved", "%s: two goroutines wrote to the socket of link%d at once; the stream is no longer a sequence of frames (offset %d)", c.Owner, p.link.ID, p.written)
				}
			} else {
				panic(fmt.Sprintf("harness: raw peer %s wrote to link%d from two goroutines at once", c.Owner, p.link.ID))
			}
		}
		if !p.discard {
			p.send(seg)
		}
		p.written += int64(n)
		total += n
		b = b[n:]
		if len(b) > 0 {
			p.partial = wid
		} else if p.partial == wid {
			p.partial = 0
		}
	}
	return total, nil
}

func (p *pipe) used() int { return len(p.buf) + p.inflight }

func deadlinePassed(t time.Time) bool { return !t.IsZero() && !time.Now().Before(t) }

// send queues one segment for delivery, preserving order.
func (p *pipe) send(seg []byte) {
	data := append([]byte(nil), seg...)
	p.inflight += len(data)
	p.enqueue(qseg{data: data})
}

func (p *pipe) enqueue(q qseg) {
	now := time.Now()
	at := now.Add(p.lat)
	if p.jitter > 0 && !q.fin {
		at = at.Add(time.Duration(simrt.Draw(simrt.StrNet, p.jitter+1)) * p.link.A.n.w.Grid)
	}
	if at.Before(p.lastAt) {
		at = p.lastAt
	}
	if at.Before(p.stallTill) {
		at = p.stallTill
	}
	p.lastAt = at
	q.at = at
	p.queue = append(p.queue, q)
	if p.stalled {
		return
	}
	if !at.After(now) {
		p.pump()
		return
	}
	time.AfterFunc(at.Sub(now), p.pump)
}

func (p *pipe) queueFin() {
	if p.finQueued {
		return
	}
	p.finQueued = true
	p.enqueue(qseg{fin: true})
}

func (c *Conn) Read(b []byte) (int, error) {
	simrt.Yield("h/net.go:read")
	p := c.rd
	for {
		if c.closed {
			return 0, errClosedConn
		}
		if len(p.buf) > 0 && len(b) > 0 {
			n := len(b)
			if n > len(p.buf) {
				n = len(p.buf)
			}
			if p.segmented && n > 1 && simrt.Chance(simrt.StrNet, 1, 4) {
				n = 1 + simrt.Draw(simrt.StrNet, n)
			}
			copy(b, p.buf[:n])
			p.buf = p.buf[n:]
			if len(p.buf) == 0 {
				p.buf = nil
			}
			p.consumed += int64(n)
			c.n.LastData = time.Now()
			simrt.HBAcquire(&netIOSync)
			p.noteConsumed(c.n.w)
			p.q.WakeAll() // a writer may be waiting for room
			return n, nil
		}
		if len(b) == 0 {
			return 0, nil
		}
		if p.rst {
			if c.link.EndSeenAt[c.side] == 0 {
				c.link.EndSeenAt[c.side] = simrt.Elapsed() + 1
			}
			return 0, errReset
		}
		if p.fin {
			simrt.HBAcquire(&netIOSync) // (a read returning 0 without error acquires as well)
			if c.link.EndSeenAt[c.side] == 0 {
				c.link.EndSeenAt[c.side] = simrt.Elapsed() + 1
			}
			return 0, io.EOF
		}
		if deadlinePassed(c.rdl) {
			return 0, errTimeout
		}
		p.q.Wait(fmt.Sprintf("read link%d dir%d", p.link.ID, p.dir))
	}
}

func (c *Conn) Close() error {
	simrt.Yield("h/net.go:close")
	if c.closed {
		return errClosedConn
	}
	c.closed = true
	c.n.Gen++
	if c.link.CloseEv[c.side] == 0 {
		c.link.CloseEv[c.side] = c.n.w.tick()
		c.link.CloseAt[c.side] = simrt.Elapsed()
	}
	c.n.w.event("sockclose", "link%d side%d (%s)", c.link.ID, c.side, c.Owner)
	// our outgoing direction ends with a FIN after the data already written
	c.wr.queueFin()
	c.wr.q.WakeAll()
	// what the peer writes from now on goes nowhere. (A real stack would answer
	// with RST, which may also destroy data still in flight to the peer; that is
	// transport behaviour, not the library's, so simnet models the benign case:
	// the peer reads everything we sent, then EOF. Abortive loss is what the
	// net.cut fault is for.)
	c.rd.discard = true
	c.rd.buf = nil
	c.rd.queue = nil // whatever was still in flight towards us (or held by a stall) is gone too
	c.rd.inflight = 0
	c.rd.q.WakeAll()
	return nil
}

func (c *Conn) LocalAddr() net.Addr  { return c.local }
func (c *Conn) RemoteAddr() net.Addr { return c.remote }

func (c *Conn) SetDeadline(t time.Time) error {
	c.SetReadDeadline(t)
	c.SetWriteDeadline(t)
	return nil
}

func (c *Conn) SetReadDeadline(t time.Time) error {
	c.rdl = t
	c.armDeadline(t, c.rd)
	return nil
}

func (c *Conn) SetWriteDeadline(t time.Time) error {
	c.wdl = t
	c.armDeadline(t, c.wr)
	return nil
}

func (c *Conn) armDeadline(t time.Time, p *pipe) {
	if t.IsZero() {
		return
	}
	d := time.Until(t)
	if d <= 0 {
		p.q.WakeAll()
		return
	}
	time.AfterFunc(d, func() { p.q.WakeAll() })
}

// Closed reports whether this endpoint was closed locally.
func (c *Conn) Closed() bool { return c.closed }

// ---- tap ----

func (p *pipe) tapFeed(w *World, b []byte) {
	p.pend = append(p.pend, b...)
	for len(p.pend) >= wire.HeaderSize {
		sz := wire.FrameSize(p.pend)
		if sz < wire.HeaderSize {
			// unparseable stream from here on: record once and stop parsing
			tf := &TapFrame{Conn: p.link, Dir: p.dir, Seq: len(p.link.Frames[p.dir]), Off: p.pendOff, End: p.pendOff + int64(len(p.pend)),
				Err: fmt.Errorf("frame size %d below header size", sz), WEv: w.tick(), WAt: simrt.Elapsed(), F: &wire.Frame{Raw: append([]byte(nil), p.pend...)}}
			p.link.Frames[p.dir] = append(p.link.Frames[p.dir], tf)
			p.pendOff += int64(len(p.pend))
			p.pend = nil
			w.onFrame(tf)
			return
		}
		if len(p.pend) < sz {
			return
		}
		raw := append([]byte(nil), p.pend[:sz]...)
		f, err := wire.Decode(raw)
		tf := &TapFrame{Conn: p.link, Dir: p.dir, Seq: len(p.link.Frames[p.dir]), Off: p.pendOff, End: p.pendOff + int64(sz), F: f, Err: err, WEv: w.tick(), WAt: simrt.Elapsed()}
		p.link.Frames[p.dir] = append(p.link.Frames[p.dir], tf)
		p.pend = p.pend[sz:]
		p.pendOff += int64(sz)
		for _, ft := range p.faults {
			if ft.Off < 0 && !ft.Fired && ft.Sel != nil {
				if o := ft.Sel(tf); o >= 0 {
					ft.Off = tf.Off + int64(o)
				}
			}
		}
		w.onFrame(tf)
	}
}

func (p *pipe) markCorrupted(off int64) {
	for _, tf := range p.link.Frames[p.dir] {
		if off >= tf.Off && off < tf.End {
			tf.Corrupted = true
		}
	}
}

func (p *pipe) noteConsumed(w *World) {
	fr := p.link.Frames[p.dir]
	for p.nextRead < len(fr) && fr[p.nextRead].End <= p.consumed {
		fr[p.nextRead].REv = w.tick()
		fr[p.nextRead].RAt = simrt.Elapsed()
		p.nextRead++
	}
}

var _ = errors.New
