#!/bin/bash
# Builds the framework from files on disk only (offline). Run once after a restore.
set -e
cd /verif
export GOFLAGS=-mod=mod GOPROXY=off GOSUMDB=off GOTOOLCHAIN=local CGO_ENABLED=0
mkdir -p bin evidence replays
(cd cmd/vinstr && go1.26.8 build -o /verif/bin/vinstr .)
(cd cmd/vcheck && go1.26.8 build -o /verif/bin/vcheck .)
# warm the build cache (runtime with overlay, library, harness) by building the simulation binary once
./bin/vcheck build >/dev/null
echo "setup ok"
