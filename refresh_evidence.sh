#!/bin/bash
# refresh_evidence.sh - re-runs every property's quick check with the default parameters, so that
# the committed evidence files describe exactly what "./check <id> quick" does from a fresh restore
cd /verif
for p in C01 C02 C03 C04 C05 C06 C07 C08 C09 C10 C11 C12 C13 C14 C15 C16 C17 C18 C19 C20; do
  VERIF_SEED=${VERIF_SEED:-1} ./check $p quick 2>&1 | grep "quick:\|^VIOLATION\|KNOWN" | cut -c1-200
done
