#!/bin/bash
# mutate.sh <prop> <runs> <file> <python-replace-old> <python-replace-new> [family]
# applies a one-line mutation in a scratch worktree of /repo HEAD and runs the property's quick check against it
P="$1"; RUNS="$2"; FILE="$3"; OLD="$4"; NEW="$5"; FAM="${6:-}"
WT=/var/tmp/wt-mut.$$
git -C /repo worktree add -q "$WT" HEAD || exit 2
python3 - "$WT/$FILE" "$OLD" "$NEW" <<'PY'
import sys
p,old,new=sys.argv[1:4]
s=open(p).read()
assert old in s, "pattern not found"
open(p,'w').write(s.replace(old,new,1))
PY
rc=$?
if [ $rc -eq 0 ]; then
  (cd "$WT" && GOFLAGS=-mod=mod go build . ) || echo "MUTANT DOES NOT BUILD"
  ARGS="-nomin -runs $RUNS"; [ -n "$FAM" ] && ARGS="$ARGS -family $FAM"
  VERIF_REPO="$WT" /verif/check "$P" quick $ARGS 2>&1 | grep "by rule\|$P quick\|KNOWN\|race pass" | cut -c1-300
fi
git -C /repo worktree remove --force "$WT"
