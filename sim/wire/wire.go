// Package wire is a second, independent implementation of the TChannel wire
// format, written from the protocol specification (docs/protocol.md of the
// tchannel project), sharing no code with the library under test. It is the
// reference layout for every frame the simulation sees or sends.
package wire

import (
	"encoding/binary"
	"errors"
	"fmt"
	"hash/crc32"
)

// Message types.
const (
	TInitReq     = 0x01
	TInitRes     = 0x02
	TCallReq     = 0x03
	TCallRes     = 0x04
	TCallReqCont = 0x13
	TCallResCont = 0x14
	TCancel      = 0xC0
	TClaim       = 0xC1
	TPingReq     = 0xD0
	TPingRes     = 0xD1
	TError       = 0xFF
)

const (
	HeaderSize   = 16
	MaxFrameSize = 65535
)

// Checksum types.
const (
	CsumNone     = 0
	CsumCRC32    = 1
	CsumFarm32   = 2
	CsumCRC32C   = 3
	FlagFragment = 0x01
)

// Error codes of the specification.
const (
	ErrTimeout    = 0x01
	ErrCancelled  = 0x02
	ErrBusy       = 0x03
	ErrDeclined   = 0x04
	ErrUnexpected = 0x05
	ErrBadRequest = 0x06
	ErrNetwork    = 0x07
	ErrUnhealthy  = 0x08
	ErrProtocol   = 0xFF
)

func TypeName(t byte) string {
	switch t {
	case TInitReq:
		return "initReq"
	case TInitRes:
		return "initRes"
	case TCallReq:
		return "callReq"
	case TCallRes:
		return "callRes"
	case TCallReqCont:
		return "callReqCont"
	case TCallResCont:
		return "callResCont"
	case TCancel:
		return "cancel"
	case TClaim:
		return "claim"
	case TPingReq:
		return "pingReq"
	case TPingRes:
		return "pingRes"
	case TError:
		return "error"
	}
	return fmt.Sprintf("type%#x", t)
}

// Span is the 25-byte tracing field: span id, parent id, trace id, flags.
type Span struct {
	SpanID, ParentID, TraceID uint64
	Flags                     byte
}

// KV is one header pair (order preserved).
type KV struct{ K, V string }

// Frame is a decoded frame. Only the fields of its Type are meaningful.
type Frame struct {
	Size uint16 // total size from the header
	Type byte
	ID   uint32
	Raw  []byte // the complete frame bytes (header + payload)

	// init
	Version uint16
	Params  []KV

	// call req/res (+ continuations)
	Flags    byte
	TTL      uint32
	Span     Span
	Service  string
	Headers  []KV
	ResCode  byte
	CsumType byte
	Csum     uint32
	Chunks   [][]byte // argument chunks of this frame, in order
	ArgOff   int      // offset in Raw where the chunk area starts
	CsumOff  int      // offset in Raw of the checksum bytes (0 if none)

	// error
	ErrCode byte
	Message string

	// cancel
	Why string
}

func (f *Frame) More() bool { return f.Flags&FlagFragment != 0 }

func (f *Frame) IsCall() bool {
	return f.Type == TCallReq || f.Type == TCallRes || f.Type == TCallReqCont || f.Type == TCallResCont
}

func (f *Frame) String() string {
	switch f.Type {
	case TCallReq:
		return fmt.Sprintf("callReq[%d] sz=%d fl=%d ttl=%d svc=%q cs=%d chunks=%v", f.ID, f.Size, f.Flags, f.TTL, f.Service, f.CsumType, chunkLens(f.Chunks))
	case TCallRes:
		return fmt.Sprintf("callRes[%d] sz=%d fl=%d code=%d cs=%d chunks=%v", f.ID, f.Size, f.Flags, f.ResCode, f.CsumType, chunkLens(f.Chunks))
	case TCallReqCont, TCallResCont:
		return fmt.Sprintf("%s[%d] sz=%d fl=%d cs=%d chunks=%v", TypeName(f.Type), f.ID, f.Size, f.Flags, f.CsumType, chunkLens(f.Chunks))
	case TError:
		return fmt.Sprintf("error[%d] code=%#x msg=%q", f.ID, f.ErrCode, trunc(f.Message, 60))
	case TInitReq, TInitRes:
		return fmt.Sprintf("%s[%d] v=%d params=%v", TypeName(f.Type), f.ID, f.Version, f.Params)
	}
	return fmt.Sprintf("%s[%d] sz=%d", TypeName(f.Type), f.ID, f.Size)
}

func trunc(s string, n int) string {
	if len(s) > n {
		return s[:n] + "..."
	}
	return s
}

func chunkLens(c [][]byte) []int {
	r := make([]int, len(c))
	for i := range c {
		r[i] = len(c[i])
	}
	return r
}

var ErrShort = errors.New("wire: truncated")

type rd struct {
	b   []byte
	off int
	err error
}

func (r *rd) need(n int) bool {
	if r.err != nil {
		return false
	}
	if n < 0 || r.off+n > len(r.b) {
		r.err = ErrShort
		return false
	}
	return true
}
func (r *rd) u8() byte {
	if !r.need(1) {
		return 0
	}
	v := r.b[r.off]
	r.off++
	return v
}
func (r *rd) u16() uint16 {
	if !r.need(2) {
		return 0
	}
	v := binary.BigEndian.Uint16(r.b[r.off:])
	r.off += 2
	return v
}
func (r *rd) u32() uint32 {
	if !r.need(4) {
		return 0
	}
	v := binary.BigEndian.Uint32(r.b[r.off:])
	r.off += 4
	return v
}
func (r *rd) u64() uint64 {
	if !r.need(8) {
		return 0
	}
	v := binary.BigEndian.Uint64(r.b[r.off:])
	r.off += 8
	return v
}
func (r *rd) bytes(n int) []byte {
	if !r.need(n) {
		return nil
	}
	v := r.b[r.off : r.off+n]
	r.off += n
	return v
}
func (r *rd) str8() string  { return string(r.bytes(int(r.u8()))) }
func (r *rd) str16() string { return string(r.bytes(int(r.u16()))) }
func (r *rd) span() Span {
	var s Span
	s.SpanID = r.u64()
	s.ParentID = r.u64()
	s.TraceID = r.u64()
	s.Flags = r.u8()
	return s
}

// FrameSize returns the total frame size announced by a 16-byte header.
func FrameSize(hdr []byte) int { return int(binary.BigEndian.Uint16(hdr)) }

// Decode parses one complete frame (len(raw) must equal the header's size).
func Decode(raw []byte) (*Frame, error) {
	if len(raw) < HeaderSize {
		return nil, ErrShort
	}
	f := &Frame{Raw: raw}
	f.Size = binary.BigEndian.Uint16(raw)
	f.Type = raw[2]
	f.ID = binary.BigEndian.Uint32(raw[4:])
	if int(f.Size) != len(raw) {
		return f, fmt.Errorf("wire: header size %d != %d bytes given", f.Size, len(raw))
	}
	r := &rd{b: raw, off: HeaderSize}
	switch f.Type {
	case TInitReq, TInitRes:
		f.Version = r.u16()
		nh := int(r.u16())
		for i := 0; i < nh && r.err == nil; i++ {
			k := r.str16()
			v := r.str16()
			f.Params = append(f.Params, KV{k, v})
		}
	case TCallReq:
		f.Flags = r.u8()
		f.TTL = r.u32()
		f.Span = r.span()
		f.Service = r.str8()
		nh := int(r.u8())
		for i := 0; i < nh && r.err == nil; i++ {
			k := r.str8()
			v := r.str8()
			f.Headers = append(f.Headers, KV{k, v})
		}
		r.csumAndChunks(f)
	case TCallRes:
		f.Flags = r.u8()
		f.ResCode = r.u8()
		f.Span = r.span()
		nh := int(r.u8())
		for i := 0; i < nh && r.err == nil; i++ {
			k := r.str8()
			v := r.str8()
			f.Headers = append(f.Headers, KV{k, v})
		}
		r.csumAndChunks(f)
	case TCallReqCont, TCallResCont:
		f.Flags = r.u8()
		r.csumAndChunks(f)
	case TCancel:
		f.TTL = r.u32()
		f.Span = r.span()
		f.Why = r.str16()
	case TError:
		f.ErrCode = r.u8()
		f.Span = r.span()
		f.Message = r.str16()
	case TPingReq, TPingRes, TClaim:
	default:
		return f, fmt.Errorf("wire: unknown type %#x", f.Type)
	}
	if r.err != nil {
		return f, r.err
	}
	return f, nil
}

func csumSize(t byte) int {
	switch t {
	case CsumNone:
		return 0
	case CsumCRC32, CsumFarm32, CsumCRC32C:
		return 4
	}
	return -1
}

func (r *rd) csumAndChunks(f *Frame) {
	f.CsumType = r.u8()
	n := csumSize(f.CsumType)
	if n < 0 {
		if r.err == nil {
			r.err = fmt.Errorf("wire: unknown checksum type %d", f.CsumType)
		}
		return
	}
	if n == 4 {
		f.CsumOff = r.off
		f.Csum = r.u32()
	}
	f.ArgOff = r.off
	for r.err == nil && r.off < len(r.b) {
		l := int(r.u16())
		c := r.bytes(l)
		if r.err == nil {
			f.Chunks = append(f.Chunks, c)
		}
	}
}

// ---- encoding ----

type wr struct{ b []byte }

func (w *wr) u8(v byte)     { w.b = append(w.b, v) }
func (w *wr) u16(v uint16)  { w.b = binary.BigEndian.AppendUint16(w.b, v) }
func (w *wr) u32(v uint32)  { w.b = binary.BigEndian.AppendUint32(w.b, v) }
func (w *wr) u64(v uint64)  { w.b = binary.BigEndian.AppendUint64(w.b, v) }
func (w *wr) raw(v []byte)  { w.b = append(w.b, v...) }
func (w *wr) str8(s string) { w.u8(byte(len(s))); w.b = append(w.b, s...) }
func (w *wr) str16(s string) {
	w.u16(uint16(len(s)))
	w.b = append(w.b, s...)
}
func (w *wr) span(s Span) { w.u64(s.SpanID); w.u64(s.ParentID); w.u64(s.TraceID); w.u8(s.Flags) }

// finish stamps the header. size may be overridden by the caller afterwards.
func header(t byte, id uint32) *wr {
	w := &wr{b: make([]byte, HeaderSize, 128)}
	w.b[2] = t
	binary.BigEndian.PutUint32(w.b[4:], id)
	return w
}
func (w *wr) done() []byte {
	binary.BigEndian.PutUint16(w.b, uint16(len(w.b)))
	return w.b
}

// EncInit builds an init req/res.
func EncInit(t byte, id uint32, version uint16, params []KV) []byte {
	w := header(t, id)
	w.u16(version)
	w.u16(uint16(len(params)))
	for _, p := range params {
		w.str16(p.K)
		w.str16(p.V)
	}
	return w.done()
}

// EncError builds an error frame.
func EncError(id uint32, code byte, span Span, msg string) []byte {
	w := header(TError, id)
	w.u8(code)
	w.span(span)
	w.str16(msg)
	return w.done()
}

// EncCancel builds a cancel frame.
func EncCancel(id uint32, ttl uint32, span Span, why string) []byte {
	w := header(TCancel, id)
	w.u32(ttl)
	w.span(span)
	w.str16(why)
	return w.done()
}

// EncPing builds a ping req/res.
func EncPing(t byte, id uint32) []byte { return header(t, id).done() }

// Checksum computes the running checksum of the given type over data, seeded
// with the previous fragment's value.
func Checksum(t byte, prev uint32, data []byte) (uint32, bool) {
	switch t {
	case CsumNone:
		return 0, true
	case CsumCRC32:
		return crc32.Update(prev, crc32.IEEETable, data), true
	case CsumCRC32C:
		return crc32.Update(prev, castagnoli, data), true
	}
	return 0, false // farmhash: not independently implemented
}

var castagnoli = crc32.MakeTable(crc32.Castagnoli)

// CallSpec describes a call request or response message to encode.
type CallSpec struct {
	Type     byte // TCallReq or TCallRes
	ID       uint32
	TTL      uint32
	Span     Span
	Service  string
	Headers  []KV
	ResCode  byte
	CsumType byte
	Args     [3][]byte
	// MaxFrame bounds the total size of each emitted frame (default 65535).
	MaxFrame int
	// ReservedFlags is OR'ed into the flags byte of every frame of the message: bits
	// other than 0x01 are reserved and must be ignored by a decoder.
	ReservedFlags byte
	// BreakAfterArg1 ends the first frame right after arg1: the next frame then begins with
	// the empty chunk that closes arg1, followed by arg2 (legal, and unusual)
	BreakAfterArg1 bool
}

// EncCall encodes a complete call message into one or more frames following
// the specification's fragmentation rules.
func EncCall(c CallSpec) [][]byte {
	max := c.MaxFrame
	if max <= 0 || max > MaxFrameSize {
		max = MaxFrameSize
	}
	var frames [][]byte
	var csum uint32
	argi, off := 0, 0
	first := true
	for {
		var w *wr
		var flagPos int
		if first {
			w = header(c.Type, c.ID)
			flagPos = len(w.b)
			w.u8(0)
			if c.Type == TCallReq {
				w.u32(c.TTL)
				w.span(c.Span)
				w.str8(c.Service)
			} else {
				w.u8(c.ResCode)
				w.span(c.Span)
			}
			w.u8(byte(len(c.Headers)))
			for _, h := range c.Headers {
				w.str8(h.K)
				w.str8(h.V)
			}
		} else {
			t := byte(TCallReqCont)
			if c.Type == TCallRes {
				t = TCallResCont
			}
			w = header(t, c.ID)
			flagPos = len(w.b)
			w.u8(0)
		}
		w.u8(c.CsumType)
		csPos := len(w.b)
		if csumSize(c.CsumType) == 4 {
			w.u32(0)
		}
		// fill chunks: the first chunk of a frame continues the current
		// argument; every further chunk in the same frame starts the next one.
		done := false
		firstChunk := true
		for {
			room := max - len(w.b) - 2
			if room < 0 {
				if firstChunk {
					panic("wire: MaxFrame too small for the message header")
				}
				break
			}
			if !firstChunk {
				argi++
				off = 0
			}
			firstChunk = false
			rest := c.Args[argi][off:]
			n := len(rest)
			if n > room {
				n = room
			}
			w.u16(uint16(n))
			w.raw(rest[:n])
			csum, _ = Checksum(c.CsumType, csum, rest[:n])
			off += n
			if off < len(c.Args[argi]) {
				break // frame full, argument continues in the next frame
			}
			if argi == 2 {
				done = true
				break
			}
			if first && argi == 0 && c.BreakAfterArg1 {
				break
			}
		}
		if !done {
			w.b[flagPos] = FlagFragment
		}
		w.b[flagPos] |= c.ReservedFlags &^ FlagFragment
		if csumSize(c.CsumType) == 4 {
			binary.BigEndian.PutUint32(w.b[csPos:], csum)
		}
		frames = append(frames, w.done())
		first = false
		if done {
			return frames
		}
	}
}

// Reassembler rebuilds the three arguments of a message from its frames and
// verifies checksums along the way.
type Reassembler struct {
	Args     [3][]byte
	argi     int
	Done     bool // last fragment seen
	Err      error
	csum     uint32
	csumType int
	Frames   int
}

func NewReassembler() *Reassembler { return &Reassembler{csumType: -1} }

// Add consumes the next frame of the message.
func (r *Reassembler) Add(f *Frame) {
	if r.Err != nil {
		return
	}
	if r.Done {
		r.Err = errors.New("frame after last fragment")
		return
	}
	r.Frames++
	if r.csumType == -1 {
		r.csumType = int(f.CsumType)
	} else if r.csumType != int(f.CsumType) {
		r.Err = fmt.Errorf("checksum type changed %d -> %d", r.csumType, f.CsumType)
		return
	}
	if len(f.Chunks) == 0 {
		r.Err = errors.New("call frame without any chunk")
		return
	}
	for i, c := range f.Chunks {
		if i > 0 {
			r.argi++
			if r.argi > 2 {
				r.Err = errors.New("more than three arguments")
				return
			}
		}
		r.Args[r.argi] = append(r.Args[r.argi], c...)
		if cs, ok := Checksum(f.CsumType, r.csum, c); ok {
			r.csum = cs
		}
	}
	if f.CsumType == CsumCRC32 || f.CsumType == CsumCRC32C {
		if r.csum != f.Csum {
			r.Err = fmt.Errorf("checksum mismatch: carried %#x, computed %#x (frame %d of message)", f.Csum, r.csum, r.Frames)
			return
		}
	}
	if !f.More() {
		r.Done = true
	}
}

// FrameID returns the id field of an encoded frame (0 if too short).
func FrameID(raw []byte) uint32 {
	if len(raw) < 8 {
		return 0
	}
	return binary.BigEndian.Uint32(raw[4:])
}
