//go:build !race

package simrt

import "unsafe"

const RaceEnabled = false

func raceDisable()                      {}
func raceEnable()                       {}
func raceAcquire(p unsafe.Pointer)      {}
func raceRelease(p unsafe.Pointer)      {}
func raceReleaseMerge(p unsafe.Pointer) {}
