package vsim

import (
	"context"
	"errors"
	"fmt"
	"sync"
	"time"

	"vsim/wire"
)

// RawPeer is a harness party that speaks the protocol through the independent
// codec only (package wire): the hostile party, the protocol-level observer,
// and a conforming foreign implementation.
type RawPeer struct {
	w     *World
	Name  string
	Host  string
	conns []*RawConn
	L     *Listener
	// Reserved != 0: every whole frame this peer sends carries this value in the reserved
	// byte of its header and a pattern in the eight reserved bytes at its end (receivers
	// ignore them; nothing of it may show up in what the receiver sends to anybody)
	Reserved byte
}

// RawConn is one socket of a raw peer.
type RawConn struct {
	p      *RawPeer
	c      *Conn
	nextID uint32
	Got    []*wire.Frame // every frame read so far
	rbuf   []byte
	// Queue: follow-up frames a hostile generator wants sent next on this connection
	Queue     [][]byte
	QueueDesc []string
	// wmu: goroutines of one raw peer that share a connection write whole buffers, one
	// at a time (a Write that meets a full link is cut, see Conn.Write)
	wmu sync.Mutex
}

func (w *World) newRawPeer(name, host string) *RawPeer {
	rp := &RawPeer{w: w, Name: name, Host: host}
	if scnChance(1, 2) {
		rp.Reserved = []byte{0xa7, 0x01, 0xff}[scn(3)]
		w.probe("rawpeer.reserved-header-bytes-set")
	}
	w.RawPeers = append(w.RawPeers, rp)
	return rp
}

// CloseAll closes every socket the raw peer still holds.
func (r *RawPeer) CloseAll() {
	for _, c := range r.conns {
		if !c.c.Closed() {
			c.c.Close()
		}
	}
	if r.L != nil && !r.L.closed {
		r.L.Close()
	}
}

// Dial opens a socket to a listening address (no handshake yet).
func (r *RawPeer) Dial(to string) (*RawConn, error) {
	ctx, cancel := context.WithTimeout(context.Background(), 5*time.Second)
	defer cancel()
	nc, err := r.w.Net.Dial(ctx, r.Host, to)
	if err != nil {
		return nil, err
	}
	c := nc.(*Conn)
	c.Owner = r.Name
	rc := &RawConn{p: r, c: c, nextID: 1}
	r.conns = append(r.conns, rc)
	return rc, nil
}

// Listen makes the raw peer accept connections; each is handed to serve.
func (r *RawPeer) Listen(port int, serve func(c *RawConn)) string {
	hp := fmt.Sprintf("%s:%d", r.Host, port)
	l, err := r.w.Net.Listen(hp)
	if err != nil {
		panic("harness: raw listen: " + err.Error())
	}
	r.L = l
	go func() {
		for {
			nc, err := l.Accept()
			if err != nil {
				return
			}
			c := nc.(*Conn)
			c.Owner = r.Name
			rc := &RawConn{p: r, c: c, nextID: 1}
			r.conns = append(r.conns, rc)
			go serve(rc)
		}
	}()
	return hp
}

func (c *RawConn) ID() uint32 { id := c.nextID; c.nextID++; return id }

// Send writes raw bytes.
func (c *RawConn) Send(b []byte) error {
	if r := c.p.Reserved; r != 0 && len(b) >= wire.HeaderSize && wire.FrameSize(b) == len(b) {
		b = append([]byte(nil), b...)
		b[3] = r
		for i := 8; i < 16; i++ {
			b[i] = r ^ byte(i)
		}
	}
	c.wmu.Lock()
	defer c.wmu.Unlock()
	_, err := c.c.Write(b)
	return err
}

// ReadFrame reads one frame (waiting at most d of simulated time). Bytes that
// arrived before the deadline stay buffered: a timeout never desynchronises
// the stream.
func (c *RawConn) ReadFrame(d time.Duration) (*wire.Frame, error) {
	c.c.SetReadDeadline(time.Now().Add(d))
	defer c.c.SetReadDeadline(time.Time{})
	for {
		if len(c.rbuf) >= wire.HeaderSize {
			sz := wire.FrameSize(c.rbuf)
			if sz < wire.HeaderSize {
				return nil, fmt.Errorf("raw: peer sent frame size %d", sz)
			}
			if len(c.rbuf) >= sz {
				raw := append([]byte(nil), c.rbuf[:sz]...)
				c.rbuf = c.rbuf[sz:]
				f, err := wire.Decode(raw)
				if f != nil {
					c.Got = append(c.Got, f)
				}
				return f, err
			}
		}
		tmp := make([]byte, 65536)
		n, err := c.c.Read(tmp)
		c.rbuf = append(c.rbuf, tmp[:n]...)
		if err != nil {
			return nil, err
		}
	}
}

var stdInitParams = func(hostPort, proc string) []wire.KV {
	return []wire.KV{{K: "host_port", V: hostPort}, {K: "process_name", V: proc}, {K: "tchannel_language", V: "raw"}, {K: "tchannel_language_version", V: "1"}, {K: "tchannel_version", V: "1.0"}}
}

// Handshake performs a correct client-side handshake.
func (c *RawConn) Handshake() error {
	id := c.ID()
	if err := c.Send(wire.EncInit(wire.TInitReq, id, 2, stdInitParams("0.0.0.0:0", c.p.Name))); err != nil {
		return err
	}
	f, err := c.ReadFrame(5 * time.Second)
	if err != nil {
		return err
	}
	if f.Type != wire.TInitRes || f.ID != id || f.Version != 2 {
		return fmt.Errorf("raw: bad init res %s", f)
	}
	return nil
}

// ServerHandshake performs a correct server-side handshake.
func (c *RawConn) ServerHandshake(hostPort string) error {
	f, err := c.ReadFrame(5 * time.Second)
	if err != nil {
		return err
	}
	if f.Type != wire.TInitReq {
		return fmt.Errorf("raw: expected init req, got %s", f)
	}
	return c.Send(wire.EncInit(wire.TInitRes, f.ID, 2, stdInitParams(hostPort, c.p.Name)))
}

// RawCallResult is the outcome of a conforming raw call.
type RawCallResult struct {
	Args    [3][]byte
	ErrCode int // -1 = none
	ErrMsg  string
	ResCode byte
	Frames  []*wire.Frame
	Err     error
}

// Call performs a complete, conforming call and collects the response frames
// of its id (other ids are ignored).
func (c *RawConn) Call(spec wire.CallSpec, wait time.Duration) *RawCallResult {
	res := &RawCallResult{ErrCode: -1}
	spec.Type = wire.TCallReq
	if spec.ID == 0 {
		spec.ID = c.ID()
	}
	for _, fr := range wire.EncCall(spec) {
		if err := c.Send(fr); err != nil {
			res.Err = err
			return res
		}
	}
	re := wire.NewReassembler()
	deadline := time.Now().Add(wait)
	for {
		left := time.Until(deadline)
		if left <= 0 {
			res.Err = errors.New("raw: no complete response in time")
			return res
		}
		f, err := c.ReadFrame(left)
		if err != nil {
			res.Err = err
			return res
		}
		if f.ID != spec.ID {
			continue
		}
		res.Frames = append(res.Frames, f)
		switch f.Type {
		case wire.TError:
			res.ErrCode = int(f.ErrCode)
			res.ErrMsg = f.Message
			return res
		case wire.TCallRes, wire.TCallResCont:
			if f.Type == wire.TCallRes {
				res.ResCode = f.ResCode
			}
			re.Add(f)
			if re.Err != nil {
				res.Err = re.Err
				return res
			}
			if re.Done {
				res.Args = re.Args
				return res
			}
		}
	}
}

// rawEchoRequest builds a conforming call to the generic echo handler.
func rawEchoRequest(w *World, service, tag string, pad, a3 int, csum byte, ttlms uint32) (wire.CallSpec, []byte, []byte) {
	rec := &CallRec{Spec: CallSpec{Tag: tag, Mode: "echo", Rs2: -1, Rs3: -1}}
	p2 := payload(tag, 2, pad)
	arg2 := append([]byte(rec.cmd()+"\n"), p2...)
	arg3 := payload(tag, 3, a3)
	want2, want3 := expectedResponse(tag, -1, -1, p2, arg3)
	spec := wire.CallSpec{TTL: ttlms, Service: service, Headers: []wire.KV{{K: "cn", V: "rawcaller"}, {K: "as", V: "raw"}}, CsumType: csum, Args: [3][]byte{[]byte("echo"), arg2, arg3}}
	_ = w
	return spec, want2, want3
}
