package vsim

import (
	"fmt"
	"strings"
	"time"

	tchannel "github.com/uber/tchannel-go"
	"github.com/uber/tchannel-go/relay"
	"vsim/wire"
)

func init() { families["errors"] = famErrors }

func longMsg(tag string, n int) string {
	b := payload(tag, 7, n)
	for i := range b {
		b[i] = 'a' + b[i]%26
	}
	return string(b)
}

// famErrors: every system error code and message size a handler can send,
// application errors, each locally detected condition produced by its fault,
// protocol-error frames from a raw peer, and relay-originated errors - direct
// and through 1-2 relays. Serves C20.
func famErrors(w *World) {
	w.Grid = time.Millisecond
	w.NoFault = true
	w.drawSchedule(false) // no stall injection: in the strict sub-scenarios nothing may time out
	w.linkDefaults()
	hops := scn(3)
	srv := w.addNode(NodeOpts{Name: "s0", Service: "svc0", Host: "10.0.2.1", Port: 5000, Conn: w.connOptsBig()})
	srv.Ch.Register(&echoHandler{w: w, n: srv}, "echo")
	target := srv.HostPort
	next := srv.HostPort
	var spies []*SpyRelayHost
	var relays []*Node
	for h := hops - 1; h >= 0; h-- {
		spy := &SpyRelayHost{w: w, name: fmt.Sprintf("r%d", h)}
		rn := w.addNode(NodeOpts{Name: spy.name, Service: "relay", Host: fmt.Sprintf("10.0.1.%d", h+1), Port: 4500 + h, Relay: spy, Conn: w.connOptsBig()})
		spy.Add(srv.Service, next)
		next, target = rn.HostPort, rn.HostPort
		spies = append(spies, spy)
		relays = append([]*Node{rn}, relays...)
	}
	cli := w.addNode(NodeOpts{Name: "c0", Service: "client0", Host: "10.0.3.1", Conn: w.connOptsBig()})
	via := "direct"
	if hops > 0 {
		via = fmt.Sprintf("relay x%d", hops)
	}
	sub := scn(7)
	w.describe("errors hops=%d sub-scenario=%d", hops, sub)
	mk := func(s CallSpec) *CallRec {
		s.From, s.To, s.Service, s.Via = cli, target, srv.Service, via
		if s.Timeout == 0 {
			s.Timeout = 20 * time.Second
		}
		if s.Rs2 == 0 && s.Rs3 == 0 {
			s.Rs2, s.Rs3 = -1, -1
		}
		return w.newCall(s)
	}
	switch sub {
	case 0, 1: // system errors: codes x message lengths (strict: exactly what the handler sent)
		n := 2 + scn(6)
		for i := 0; i < n; i++ {
			code := scn(256)
			if scnChance(1, 3) {
				code = []int{0, 1, 2, 3, 4, 5, 6, 7, 8, 0xfe, 0xff}[scn(11)]
			}
			mlen := []int{0, 1, 2, 17, 255, 256, 1000, 20000, 65000, 65400, 65480, 65535, 65536, 70000}[scn(14)]
			r := mk(CallSpec{Mode: "syserr", Code: code, Pad2: scn(500), Len3: drawSize(100000)})
			r.Spec.Msg = longMsg(r.Spec.Tag, mlen)
			// the command travels in arg2: rebuild the request with the final message
			r.Req2 = append([]byte(r.cmd()+"\n"), payload(r.Spec.Tag, 2, r.Spec.Pad2)...)
			r.Req2Dest = r.Req2
			w.describe("call %s syserr code=%#x msglen=%d", r.Spec.Tag, code, mlen)
			w.Call(r)
			w.checkSystemError(r, srv, hops)
			if code == 0xff {
				// a protocol error ends the connection it arrived on: following calls use a new one
				sleep(50 * time.Millisecond)
			}
		}
	case 2: // application errors with arbitrary arguments
		n := 1 + scn(5)
		for i := 0; i < n; i++ {
			r := mk(CallSpec{Mode: "apperr", Pad2: drawSize(60000), Len3: drawSize(150000), Rs2: drawSize(60000), Rs3: drawSize(150000), WritePat: scn(4), ReadPat: scnPick(0, 0, 2)})
			w.describe("call %s apperr rs=%d/%d", r.Spec.Tag, r.Spec.Rs2, r.Spec.Rs3)
			w.Call(r)
			w.eval("C20.app-error")
			if r.Err != nil {
				w.violate("C20", "app-error-lost", "call %s (%s): application error response did not arrive: %s", r.Spec.Tag, via, errStr(r.Err))
			} // flag and data are checked by the per-call oracle (wrong-response / app-flag)
		}
	case 3: // locally detected conditions
		// deadline exceeded -> timeout
		r1 := mk(CallSpec{Mode: "blackhole", Timeout: time.Duration(20+scn(200)) * w.Grid, Len3: scn(3000)})
		w.Call(r1)
		w.eval("C20.local-condition")
		if c := tchannel.GetSystemErrorCode(r1.Err); c != tchannel.ErrCodeTimeout {
			w.violate("C20", "deadline-not-timeout", "call %s ran into its deadline and ended with %s, want ErrCodeTimeout", r1.Spec.Tag, errStr(r1.Err))
		}
		// caller cancellation -> cancelled
		r2 := mk(CallSpec{Delay: 5 * time.Second, CancelAfter: time.Duration(5+scn(50)) * w.Grid, Len3: scn(3000)})
		w.Call(r2)
		w.eval("C20.local-condition")
		if c := tchannel.GetSystemErrorCode(r2.Err); c != tchannel.ErrCodeCancelled {
			w.violate("C20", "cancel-not-cancelled", "call %s was cancelled by its caller and ended with %s, want ErrCodeCancelled", r2.Spec.Tag, errStr(r2.Err))
		}
		// loss of the connection while the call is in flight -> network
		r3 := mk(CallSpec{Delay: 5 * time.Second, Len3: scn(3000)})
		cutAfter := time.Duration(10+scn(50)) * w.Grid
		w.tasks(func() { w.Call(r3) }, func() {
			sleep(cutAfter)
			for _, l := range w.Net.Links {
				if l.A.Owner == cli.Name && l.CutEv == 0 && l.CloseEv[0] == 0 {
					w.Net.Fired["net.cut"]++
					l.reset(w.Net, "planned cut")
				}
			}
		})
		w.eval("C20.local-condition")
		if c := tchannel.GetSystemErrorCode(r3.Err); c != tchannel.ErrCodeNetwork {
			w.violate("C20", "connection-loss-not-network", "call %s lost its connection in flight and ended with %s, want ErrCodeNetwork", r3.Spec.Tag, errStr(r3.Err))
		}
	case 4: // a call reaching a closing peer -> declined
		if scnChance(1, 2) {
			// the closing peer is kept open by its own OUTBOUND call on the connection (which is
			// then past the "inbound drained" stage of its close) when the new call reaches it
			c1 := w.addNode(NodeOpts{Name: "c1", Service: "client1", Host: "10.0.3.2", Port: 4100, Conn: w.connOptsBig()})
			c1.Ch.Register(&echoHandler{w: w, n: c1}, "echo")
			warm := w.newCall(CallSpec{From: c1, To: srv.HostPort, Service: srv.Service, Via: "direct", Timeout: 5 * time.Second, Rs2: -1, Rs3: -1})
			w.Call(warm)
			hold := w.newCall(CallSpec{From: srv, To: c1.HostPort, Service: c1.Service, Via: "direct", Timeout: 20 * time.Second, Delay: 3 * time.Second, Rs2: -1, Rs3: -1})
			late := w.newCall(CallSpec{From: c1, To: srv.HostPort, Service: srv.Service, Via: "direct", Timeout: 2 * time.Second, Len3: scn(3000), Rs2: -1, Rs3: -1})
			gap := time.Duration(1+scn(100)) * w.Grid
			w.tasks(func() { w.Call(hold) }, func() {
				sleep(200 * time.Millisecond)
				srv.Close()
				sleep(gap)
				w.Call(late)
			})
			w.eval("C20.local-condition")
			nlinks := 0
			for _, l := range w.Net.Links {
				if (l.A.Owner == c1.Name && l.B.Owner == srv.Name) || (l.A.Owner == srv.Name && l.B.Owner == c1.Name) {
					nlinks++
				}
			}
			if warm.Err == nil && nlinks == 1 {
				// everything went over the one connection
				w.probe("C20.closing-peer-held-by-outbound-call")
				if c := tchannel.GetSystemErrorCode(late.Err); c != tchannel.ErrCodeDeclined {
					w.violate("C20", "closing-peer-not-declined", "call %s reached a closing peer over a connection kept open only by that peer's own outbound call, and ended with %s, want ErrCodeDeclined", late.Spec.Tag, errStr(late.Err))
				}
			}
			break
		}
		hold := w.newCall(CallSpec{From: cli, To: srv.HostPort, Service: srv.Service, Via: "direct", Timeout: 20 * time.Second, Delay: 3 * time.Second, Rs2: -1, Rs3: -1})
		late := w.newCall(CallSpec{From: cli, To: srv.HostPort, Service: srv.Service, Via: "direct", Timeout: 10 * time.Second, Len3: scn(3000), Rs2: -1, Rs3: -1})
		w.tasks(func() { w.Call(hold) }, func() {
			sleep(200 * time.Millisecond)
			srv.Close()
			sleep(50 * time.Millisecond)
			w.Call(late)
		})
		w.eval("C20.local-condition")
		if c := tchannel.GetSystemErrorCode(late.Err); c != tchannel.ErrCodeDeclined {
			w.violate("C20", "closing-peer-not-declined", "call %s reached a closing peer (which still had a call in flight) and ended with %s, want ErrCodeDeclined", late.Spec.Tag, errStr(late.Err))
		}
		if hold.Err != nil {
			w.probe("C20.holder-failed")
		}
	case 6: // the response has arrived completely, then the peer goes away - and the caller collects late
		// The node the caller talks to closes gracefully as soon as the handler is done: its
		// connection flushes the response and ends. The caller is busy meanwhile (before its
		// first read, or between pieces of a many-fragment response); when it gets round to
		// reading, everything it needs is already there and the end of the connection must not
		// replace it by a network error.
		var r *CallRec
		if scnChance(1, 2) {
			r = mk(CallSpec{Mode: "syserr", Code: []int{1, 3, 4, 5, 6, 7, 8, 0x40}[scn(8)], Pad2: scn(500), Len3: drawSize(50000), ReadPause: time.Duration(100+scn(400)) * w.Grid})
			r.Spec.Msg = longMsg(r.Spec.Tag, []int{0, 9, 300, 20000}[scn(4)])
			r.Req2 = append([]byte(r.cmd()+"\n"), payload(r.Spec.Tag, 2, r.Spec.Pad2)...)
			r.Req2Dest = r.Req2
		} else {
			r = mk(CallSpec{Mode: "apperr", Pad2: scn(500), Len3: drawSize(50000), Rs2: drawSize(60000), Rs3: 70000 + drawSize(300000), ChunkPause: time.Duration(20+scn(100)) * w.Grid})
			if scnChance(1, 2) {
				r.Spec.Mode = "echo"
				r.Req2 = append([]byte(r.cmd()+"\n"), payload(r.Spec.Tag, 2, r.Spec.Pad2)...)
				r.Req2Dest = r.Req2
			}
		}
		firstHop := srv
		if hops > 0 {
			firstHop = relays[0]
		}
		gap := time.Duration(scn(20)) * w.Grid
		w.describe("call %s mode=%s rs=%d/%d readPause=%v chunkPause=%v; %s closes %v after the handler is done", r.Spec.Tag, r.Spec.Mode, r.Spec.Rs2, r.Spec.Rs3, r.Spec.ReadPause, r.Spec.ChunkPause, firstHop.Name, gap)
		w.tasks(func() { w.Call(r) }, func() {
			for i := 0; i < 20000 && r.H.ExitEv == 0; i++ {
				sleep(w.Grid)
			}
			sleep(gap)
			w.Net.Fired["app.close-after-response"]++
			firstHop.Close()
		})
		w.eval("C20.late-collection-after-peer-close")
		if r.H.ExitEv != 0 && r.H.RespErr == nil {
			switch r.Spec.Mode {
			case "syserr":
				w.checkSystemError(r, srv, hops)
			default:
				if r.Err != nil {
					w.violate("C20", "delivered-response-lost", "call %s (%s, mode %s): the handler's complete response was sent before %s closed its connection gracefully, the caller collected it late and got %s", r.Spec.Tag, via, r.Spec.Mode, firstHop.Name, errStr(r.Err))
				}
			}
		}
	case 5: // relay-originated errors / protocol error from a raw peer
		if hops > 0 {
			kind := scn(3)
			spy := spies[len(spies)-1] // the relay the client talks to is relays[0]; spies are in reverse order
			switch kind {
			case 0: // Start fails with a plain error -> declined
				spy.StartErr = func(cf relay.CallFrame) error { return fmt.Errorf("no route for %s", cf.Service()) }
				r := mk(CallSpec{Len3: scn(2000)})
				w.Call(r)
				w.eval("C20.relay-originated")
				if c := tchannel.GetSystemErrorCode(r.Err); c != tchannel.ErrCodeDeclined || !strings.Contains(tchannel.GetSystemErrorMessage(r.Err), "no route") {
					w.violate("C20", "relay-start-error-not-declined", "relay host refused the call with a plain error; caller got %s, want ErrCodeDeclined carrying the message", errStr(r.Err))
				}
			case 1: // Start fails with a system error -> that code and message
				code := []tchannel.SystemErrCode{tchannel.ErrCodeBusy, tchannel.ErrCodeBadRequest, tchannel.ErrCodeUnexpected, tchannel.ErrCodeDeclined}[scn(4)]
				spy.StartErr = func(cf relay.CallFrame) error { return tchannel.NewSystemError(code, "relay says %d", int(code)) }
				r := mk(CallSpec{Len3: scn(2000)})
				w.Call(r)
				w.eval("C20.relay-originated")
				if c := tchannel.GetSystemErrorCode(r.Err); c != code || tchannel.GetSystemErrorMessage(r.Err) != fmt.Sprintf("relay says %d", int(code)) {
					w.violate("C20", "relay-system-error-altered", "relay host refused the call with SystemError(%v); caller got %s", code, errStr(r.Err))
				}
			default: // destination unreachable -> network
				// route service "ghost" along the chain to an address nobody listens on
				spies[0].Add("ghost", "10.0.7.7:7777")
				for i := 1; i < len(spies); i++ {
					spies[i].Add("ghost", relays[len(relays)-i].HostPort)
				}
				r := w.newCall(CallSpec{From: cli, To: target, Service: "ghost", Via: via, Timeout: 5 * time.Second, Len3: 10, Rs2: -1, Rs3: -1})
				w.Call(r)
				w.eval("C20.relay-originated")
				if c := tchannel.GetSystemErrorCode(r.Err); c != tchannel.ErrCodeNetwork {
					w.violate("C20", "relay-connect-failure-not-network", "relay could not connect to the destination; caller got %s, want ErrCodeNetwork", errStr(r.Err))
				}
			}
		} else {
			// a protocol-error frame closes the connection it arrived on, and only that one
			warm := mk(CallSpec{Len3: 100})
			w.Call(warm)
			rs := w.newRawPeer("rawsrv", "10.0.8.1")
			perrID := []uint32{0xffffffff, 1, 7}[scn(3)]
			// when the frame arrives: at once; after the call's deadline has passed while the
			// caller is busy elsewhere (its exchange is still registered but refuses frames);
			// or behind a burst of response fragments a slow caller has not read yet
			when := scn(3)
			if when != 0 {
				perrID = 1
			}
			hp := rs.Listen(6000, func(c *RawConn) {
				if c.ServerHandshake("10.0.8.1:6000") != nil {
					return
				}
				for {
					f, err := c.ReadFrame(30 * time.Second)
					if err != nil {
						return
					}
					if f.Type == wire.TCallReq {
						id := perrID
						if id == 1 {
							id = f.ID
						}
						switch when {
						case 1:
							sleep(400 * time.Millisecond)
						case 2:
							frs := wire.EncCall(wire.CallSpec{Type: wire.TCallRes, ID: f.ID, CsumType: wire.CsumCRC32, Args: [3][]byte{nil, []byte("r;x\n"), payload("perr", 13, 4000)}, MaxFrame: 400})
							for _, fr := range frs[:len(frs)-1] {
								c.Send(fr)
							}
						}
						c.Send(wire.EncError(id, wire.ErrProtocol, wire.Span{}, "raw protocol error"))
					}
				}
			})
			spec := CallSpec{From: cli, To: hp, Service: "x", Via: "to-raw-server", Timeout: 3 * time.Second, Len3: 10, Rs2: -1, Rs3: -1, NoCheck: true}
			switch when {
			case 1:
				spec.Timeout, spec.ReadPause = 150*time.Millisecond, 700*time.Millisecond
			case 2:
				spec.Timeout, spec.ChunkPause, spec.ReadPat = 500*time.Millisecond, 200*time.Millisecond, 2
			}
			w.probe(fmt.Sprintf("C20.protocol-error-frame(when=%d)", when))
			r := w.newCall(spec)
			w.Call(r)
			sleep(200 * time.Millisecond)
			if when != 0 {
				sleep(time.Second)
			}
			w.eval("C20.protocol-error-frame")
			if r.Err == nil {
				w.violate("C20", "protocol-error-ignored", "peer answered with a protocol-error frame (id %#x) and the call succeeded", perrID)
			}
			closed := false
			for _, l := range w.Net.Links {
				if l.B.Owner == "rawsrv" && l.CloseEv[0] != 0 {
					closed = true
				}
			}
			if !closed {
				w.violate("C20", "protocol-error-connection-kept", "peer sent a protocol-error frame (id %#x) but the client kept that connection open (call ended with %s)", perrID, errStr(r.Err))
			}
			for _, l := range w.Net.Links {
				if l.A.Owner == cli.Name && l.B.Owner == srv.Name && (l.CloseEv[0] != 0 || l.CloseEv[1] != 0) {
					w.violate("C20", "protocol-error-closed-other-connection", "a protocol-error frame on the connection to the raw peer also ended the client's connection to %s", srv.Name)
				}
			}
			again := mk(CallSpec{Len3: 100})
			w.Call(again)
			if again.Err != nil {
				w.violate("C20", "protocol-error-closed-other-connection", "after a protocol-error frame from another peer, a call to %s failed: %s", srv.Name, errStr(again.Err))
			}
		}
	}
	w.QuiesceStarted = true
	w.stopLags()
	sleep(25 * time.Second)
	for _, spy := range spies {
		spy.checkEnded()
	}
	w.quiesce(10*time.Second, true)
}

// checkSystemError: the strict form of C20's first sentence, applied where no
// fault, deadline or relay limit can interfere.
func (w *World) checkSystemError(r *CallRec, srv *Node, hops int) {
	w.eval("C20.system-error")
	s := &r.Spec
	// what went onto the wire from the handler's node for this call
	var errFrames []*wire.Frame
	for _, l := range w.Net.Links {
		if l.B.Owner != srv.Name {
			continue
		}
		var id uint32
		found := false
		for _, tf := range l.Frames[0] {
			if tf.Err == nil && tf.F.Type == wire.TCallReq && tagOfFrame(tf.F) == s.Tag {
				id, found = tf.F.ID, true
			}
		}
		if !found {
			continue
		}
		for _, tf := range l.Frames[1] {
			if tf.Err == nil && tf.F.Type == wire.TError && tf.F.ID == id {
				errFrames = append(errFrames, tf.F)
			}
		}
	}
	tooLong := len(s.Msg) > 65535-wire.HeaderSize-1-25-2
	for _, f := range errFrames {
		if f.Message != s.Msg {
			w.violate("C20", "error-message-truncated-on-wire", "call %s: handler sent a system error with a %d-byte message, the error frame on the wire carries %d bytes (%s)", s.Tag, len(s.Msg), len(f.Message), diffDesc([]byte(f.Message), []byte(s.Msg)))
		}
		if int(f.ErrCode) != s.Code {
			w.violate("C20", "error-code-altered-on-wire", "call %s: handler sent code %#x, the error frame carries %#x", s.Tag, s.Code, f.ErrCode)
		}
	}
	if tooLong {
		w.probe("C20.over-long-message")
		if r.H.Entered && r.H.RespErr == nil && len(errFrames) == 0 {
			w.violate("C20", "over-long-message-silently-dropped", "call %s: a %d-byte error message cannot fit a frame, yet SendSystemError reported success and no frame was sent", s.Tag, len(s.Msg))
		}
		return
	}
	se, ok := r.Err.(tchannel.SystemError)
	if !ok {
		w.violate("C20", "system-error-lost", "call %s (%s): handler sent SystemError(%#x, %d-byte message); caller got %s", s.Tag, s.Via, s.Code, len(s.Msg), errStr(r.Err))
		return
	}
	if int(se.Code()) != s.Code || se.Message() != s.Msg {
		if s.Code == 0xff && hops > 0 {
			// relay channels route error frames to the relayer; what reaches the caller is still the frame
		}
		w.violate("C20", "system-error-altered", "call %s (%s): handler sent SystemError(%#x, %d-byte message); caller got code %#x with %s", s.Tag, s.Via, s.Code, len(s.Msg), int(se.Code()), diffDesc([]byte(se.Message()), []byte(s.Msg)))
	}
}
