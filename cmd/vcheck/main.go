// vcheck is the driver behind every MANIFEST command: it builds the simulation
// binary from /repo's current working tree, fans out seeded runs (one OS
// process per run), classifies results against the property being checked,
// minimises and replays violations, writes the evidence file and sets the
// exit status (0 held / 1 VIOLATION / 2 infrastructure trouble).
package main

import (
	"bytes"
	"crypto/sha256"
	"encoding/json"
	"flag"
	"fmt"
	"io"
	"os"
	"os/exec"
	"path/filepath"
	"regexp"
	"sort"
	"strconv"
	"strings"
	"sync"
	"syscall"
	"time"
)

const verifDir = "/verif"

func repoDir() string {
	if r := os.Getenv("VERIF_REPO"); r != "" {
		return r
	}
	return "/repo"
}

func fatal2(format string, a ...interface{}) {
	fmt.Fprintf(os.Stderr, "vcheck: "+format+"\n", a...)
	os.Exit(2)
}

// ---- types mirrored from the harness (sim/run.go) ----

type RunSpec struct {
	Family      string              `json:"family"`
	Prop        string              `json:"prop"`
	Seed        uint64              `json:"seed"`
	Replay      map[string][]uint32 `json:"replay,omitempty"`
	NoPoison    bool                `json:"nopoison,omitempty"`
	Trace       bool                `json:"trace,omitempty"`
	Race        bool                `json:"race,omitempty"` // run by the -race build (driver only)
	Record      bool                `json:"record,omitempty"`
	WatchdogSec int                 `json:"watchdog_sec,omitempty"`
	Case        int                 `json:"case"`
	Params      map[string]int      `json:"params,omitempty"`
}

type Violation struct {
	Prop   string `json:"prop"`
	Rule   string `json:"rule"`
	Detail string `json:"detail"`
	Ev     int64  `json:"ev"`
	AtNs   int64  `json:"at_ns"`
}

type PanicInfo struct {
	G     string
	Site  string
	Lib   bool
	Value string
	Stack string
	Step  int
	At    int64
}

type RunResult struct {
	Family     string              `json:"family"`
	Seed       uint64              `json:"seed"`
	Case       int                 `json:"case"`
	Class      string              `json:"class"`
	Violations []Violation         `json:"violations"`
	Panics     []PanicInfo         `json:"panics,omitempty"`
	Aborted    string              `json:"aborted,omitempty"`
	Deadlock   bool                `json:"deadlock,omitempty"`
	MainDone   bool                `json:"main_done"`
	Steps      int                 `json:"steps"`
	Switches   int                 `json:"switches"`
	Preempts   int                 `json:"preempts"`
	Stalls     int                 `json:"stalls"`
	SimNs      int64               `json:"sim_ns"`
	FP         string              `json:"fp"`
	SitePairs  []uint64            `json:"site_pairs,omitempty"`
	Goroutines int                 `json:"goroutines"`
	Fired      map[string]int      `json:"fired"`
	Probes     map[string]int      `json:"probes"`
	Evals      map[string]int      `json:"evals"`
	Sample     []string            `json:"sample"`
	OpsDone    int                 `json:"ops_done"`
	Diverged   int                 `json:"diverged"`
	Records    map[string][]uint32 `json:"records,omitempty"`
	Trace      []string            `json:"trace,omitempty"`
	HistTail   []string            `json:"hist_tail,omitempty"`
	EventHash  string              `json:"event_hash"`

	// filled by the driver
	spec    RunSpec
	exit    int
	stderr  string
	hang    bool
	crashed bool
	wallMs  int64
}

// ---- build ----

func hashInputs() string {
	h := sha256.New()
	add := func(root string, filter func(string) bool) {
		var files []string
		filepath.Walk(root, func(p string, info os.FileInfo, err error) error {
			if err != nil {
				return nil
			}
			if info.IsDir() {
				n := info.Name()
				if n == ".git" || (root == repoDir() && p != root && (n == "benchmark" || n == "crossdock" || n == "examples" || n == "hyperbahn" || n == "scripts" || n == "guide" || n == "testutils")) {
					return filepath.SkipDir
				}
				return nil
			}
			if filter(p) {
				files = append(files, p)
			}
			return nil
		})
		sort.Strings(files)
		for _, f := range files {
			b, err := os.ReadFile(f)
			if err != nil {
				continue
			}
			fmt.Fprintf(h, "%s %d\n", strings.TrimPrefix(f, root), len(b))
			h.Write(b)
		}
	}
	add(repoDir(), func(p string) bool {
		return (strings.HasSuffix(p, ".go") && !strings.HasSuffix(p, "_test.go")) || strings.HasSuffix(p, "go.mod") || strings.HasSuffix(p, "go.sum")
	})
	for _, d := range []string{"sim", "simrt", "overlay", "cmd/vinstr"} {
		add(filepath.Join(verifDir, d), func(p string) bool { return true })
	}
	add(filepath.Join(verifDir, "buildsim.sh"), func(p string) bool { return true })
	return fmt.Sprintf("%x", h.Sum(nil))[:24]
}

func cacheRoot() string {
	if c := os.Getenv("VERIF_CACHE"); c != "" {
		return c
	}
	return "/var/tmp/verif-cache"
}

// buildBinary returns the path of the simulation binary for the current trees.
func buildBinary(race bool) string {
	key := hashInputs()
	if race {
		key += "-race"
	}
	// VERIF_COVER=1: development aid (./covreport.sh) - a build with statement
	// counters for the library packages; every run dumps them into VSIM_COVDIR
	cover := !race && os.Getenv("VERIF_COVER") != ""
	if cover {
		key += "-cover"
	}
	dir := filepath.Join(cacheRoot(), key)
	bin := filepath.Join(dir, "vsim.test")
	os.MkdirAll(cacheRoot(), 0755)
	lock, err := os.OpenFile(filepath.Join(cacheRoot(), "lock"), os.O_CREATE|os.O_RDWR, 0644)
	if err != nil {
		fatal2("cache lock: %v", err)
	}
	defer lock.Close()
	syscall.Flock(int(lock.Fd()), syscall.LOCK_EX)
	defer syscall.Flock(int(lock.Fd()), syscall.LOCK_UN)
	if st, err := os.Stat(bin); err == nil && st.Size() > 0 {
		now := time.Now()
		os.Chtimes(dir, now, now)
		return bin
	}
	os.MkdirAll(dir, 0755)
	t0 := time.Now()
	args := []string{filepath.Join(verifDir, "buildsim.sh"), bin + ".tmp"}
	if race {
		args = append(args, "race")
	} else if cover {
		args = append(args, "cover")
	}
	cmd := exec.Command("/bin/bash", args...)
	cmd.Env = append(os.Environ(), fmt.Sprintf("VERIF_SCRATCH=/var/tmp/verif.%d", os.Getpid()))
	var out bytes.Buffer
	cmd.Stdout = &out
	cmd.Stderr = &out
	if err := cmd.Run(); err != nil {
		os.RemoveAll(dir)
		fmt.Fprintln(os.Stderr, out.String())
		fatal2("building the simulation binary failed: %v", err)
	}
	if err := os.Rename(bin+".tmp", bin); err != nil {
		fatal2("rename: %v", err)
	}
	fmt.Fprintf(os.Stderr, "vcheck: built %s in %.1fs\n", bin, time.Since(t0).Seconds())
	// keep the 4 most recent cache entries
	ents, _ := os.ReadDir(cacheRoot())
	type ent struct {
		p string
		t time.Time
	}
	var es []ent
	for _, e := range ents {
		if e.IsDir() {
			if fi, err := e.Info(); err == nil {
				es = append(es, ent{filepath.Join(cacheRoot(), e.Name()), fi.ModTime()})
			}
		}
	}
	sort.Slice(es, func(i, j int) bool { return es[i].t.After(es[j].t) })
	// keep the 8 most recent entries, and anything touched in the last two hours (a long
	// check running elsewhere may still be using it: every use refreshes the entry's time)
	for i := 8; i < len(es); i++ {
		if time.Since(es[i].t) > 2*time.Hour {
			os.RemoveAll(es[i].p)
		}
	}
	return bin
}

// ---- running ----

func splitmix(x uint64) uint64 {
	x += 0x9e3779b97f4a7c15
	x = (x ^ (x >> 30)) * 0xbf58476d1ce4e5b9
	x = (x ^ (x >> 27)) * 0x94d049bb133111eb
	return x ^ (x >> 31)
}

func strHash(s string) uint64 {
	h := uint64(14695981039346656037)
	for i := 0; i < len(s); i++ {
		h ^= uint64(s[i])
		h *= 1099511628211
	}
	return h
}

var workDir string

func runSpec(bin string, spec RunSpec, idx int) *RunResult {
	return runSpecEnv(bin, spec, idx, envOr("VSIM_GOMAXPROCS", "2"))
}

func runSpecEnv(bin string, spec RunSpec, idx int, gmp string) *RunResult {
	if spec.WatchdogSec == 0 {
		spec.WatchdogSec = 90
	}
	sp := filepath.Join(workDir, fmt.Sprintf("spec-%d-%d.json", os.Getpid(), idx))
	op := filepath.Join(workDir, fmt.Sprintf("out-%d-%d.json", os.Getpid(), idx))
	b, _ := json.Marshal(spec)
	os.WriteFile(sp, b, 0644)
	defer os.Remove(sp)
	defer os.Remove(op)
	// a runaway allocation in the process under test must not take the machine down:
	// cap the address space (a breach ends the child with "out of memory", which is classified)
	cmd := exec.Command("/bin/sh", "-c", "ulimit -v "+envOr("VSIM_ULIMIT_KB", "8000000")+"; exec \"$0\" \"$@\"", bin, "-test.run", "^TestSim$", "-test.timeout", "0")
	if spec.Race {
		// the race runtime reserves terabytes of address space: no cap for these runs
		cmd = exec.Command(bin, "-test.run", "^TestSim$", "-test.timeout", "0")
	}
	cmd.Env = append(os.Environ(), "VSIM_SPEC="+sp, "VSIM_OUT="+op, "GOMAXPROCS="+gmp, "GOTRACEBACK=all", "GORACE=exitcode=0 history_size=3")
	var stderr bytes.Buffer
	cmd.Stderr = &stderr
	cmd.Stdout = io.Discard
	t0 := time.Now()
	if _, serr := os.Stat(bin); serr != nil {
		fatal2("simulation binary %s disappeared (cache evicted or scratch space cleaned while the check was running): %v", bin, serr)
	}
	// mark the cache entry as in use
	now := time.Now()
	os.Chtimes(filepath.Dir(bin), now, now)
	err := cmd.Start()
	if err != nil {
		fatal2("cannot start %s: %v", bin, err)
	}
	done := make(chan error, 1)
	go func() { done <- cmd.Wait() }()
	var werr error
	select {
	case werr = <-done:
	case <-time.After(time.Duration(spec.WatchdogSec+30) * time.Second):
		cmd.Process.Kill()
		werr = <-done
	}
	res := &RunResult{spec: spec, wallMs: time.Since(t0).Milliseconds()}
	if ee, ok := werr.(*exec.ExitError); ok {
		res.exit = ee.ExitCode()
	} else if werr != nil {
		res.exit = -1
	}
	res.stderr = stderr.String()
	ob, rerr := os.ReadFile(op)
	if rerr == nil && len(ob) > 0 {
		if err := json.Unmarshal(ob, res); err != nil {
			fatal2("bad result json: %v", err)
		}
		res.spec = spec
		return res
	}
	// no result file: the process died
	res.Family, res.Seed, res.Case = spec.Family, spec.Seed, spec.Case
	if res.exit == 3 || strings.Contains(res.stderr, "VSIM-WATCHDOG") {
		res.hang = true
	} else {
		res.crashed = true
	}
	return res
}

func envOr(k, d string) string {
	if v := os.Getenv(k); v != "" {
		return v
	}
	return d
}

// ---- known findings ----

type Finding struct {
	Property string `json:"property"`
	Status   string `json:"status"` // open | fixed
	Rule     string `json:"rule"`
	Match    string `json:"match"` // regexp over the violation detail
	What     string `json:"what"`
	Commit   string `json:"commit,omitempty"`
	re       *regexp.Regexp
}

func loadFindings() []*Finding {
	b, err := os.ReadFile(filepath.Join(verifDir, "known_findings.json"))
	if err != nil {
		return nil
	}
	var fs []*Finding
	if err := json.Unmarshal(b, &fs); err != nil {
		fatal2("known_findings.json: %v", err)
	}
	for _, f := range fs {
		f.re = regexp.MustCompile(f.Match)
	}
	return fs
}

func matchFinding(fs []*Finding, v Violation) *Finding {
	for _, f := range fs {
		if f.Status == "open" && f.Property == v.Prop && f.Rule == v.Rule && f.re.MatchString(v.Detail) {
			return f
		}
	}
	return nil
}

// ---- classification ----

// violationsFor extracts what counts against property prop in a result.
// Panics and hangs are attributed here (the harness reports them raw).
func violationsFor(prop string, r *RunResult, bin string, idx int) []Violation {
	var out []Violation
	for _, v := range r.Violations {
		if v.Prop == prop {
			out = append(out, v)
		}
	}
	libPanic := false
	for _, p := range r.Panics {
		if strings.Contains(p.Stack, "github.com/uber/tchannel-go") && panicInLibrary(p.Stack) {
			libPanic = true
		}
	}
	if libPanic {
		p := r.Panics[0]
		poisonDep := false
		if !r.spec.NoPoison {
			// differential replay: does the panic depend on released frames being poisoned?
			s2 := r.spec
			s2.NoPoison = true
			if s2.Replay == nil && r.Records != nil {
				s2.Replay = r.Records
			}
			r2 := runSpec(bin, s2, idx+1_000_000)
			if len(r2.Panics) == 0 && !r2.crashed {
				poisonDep = true
			}
		}
		top := topLibFrames(p.Stack, 6)
		switch {
		case poisonDep && prop == "C12":
			out = append(out, Violation{Prop: "C12", Rule: "use-after-release", Detail: fmt.Sprintf("library touched a frame after handing it back to the pool (panic only when released frames are poisoned): %s\n%s", p.Value, top)})
		case !poisonDep && prop == "C03":
			out = append(out, Violation{Prop: "C03", Rule: "panic", Detail: fmt.Sprintf("library goroutine panicked (this terminates the process): %s\n%s", p.Value, top)})
		case !poisonDep && prop == "C18" && codecStack(p.Stack):
			out = append(out, Violation{Prop: "C18", Rule: "panic", Detail: fmt.Sprintf("decoder panicked on peer-supplied bytes: %s\n%s", p.Value, top)})
		case !poisonDep && prop != "C12" && prop != "C18":
			// a panic on a library goroutine terminates the process: no call in flight ends in its
			// outcome, no relayed call is ended or answered, nothing is drained or cleaned up.
			// Whatever property this run was exploring does not hold on it.
			out = append(out, Violation{Prop: prop, Rule: "library-panic", Detail: fmt.Sprintf("a library goroutine panicked (this terminates the process) in a run of the workload for %s: %s\n%s", prop, p.Value, top)})
		}
	}
	if r.spec.Race && prop == "C04" {
		for _, rr := range parseRaces(r.stderr) {
			if rr.lib {
				out = append(out, Violation{Prop: "C04", Rule: "data-race", Detail: rr.text})
			}
		}
	}
	if r.crashed && prop == "C03" {
		switch {
		case strings.Contains(r.stderr, "out of memory") || strings.Contains(r.stderr, "cannot allocate memory"):
			out = append(out, Violation{Prop: "C03", Rule: "memory-exhaustion", Detail: "the process ran out of memory (address space capped for the run): a goroutine allocates without bound\n" + firstLines(crashStack(r.stderr), 30)})
		case strings.Contains(r.stderr, "fatal error:"):
			out = append(out, Violation{Prop: "C03", Rule: "fatal", Detail: "the process died with a runtime fatal error\n" + firstLines(crashStack(r.stderr), 30)})
		}
	}
	if r.hang && prop == "C03" {
		out = append(out, Violation{Prop: "C03", Rule: "spin", Detail: "a goroutine never reached a scheduling point (real-time watchdog fired)\n" + firstLines(r.stderr, 40)})
	}
	return out
}

type raceReport struct {
	text string
	lib  bool   // both accesses are made by library code (not simrt, not the harness)
	key  string // the two accessing library frames
}

// parseRaces splits the race detector's reports out of a child's stderr.
func parseRaces(stderr string) []raceReport {
	var out []raceReport
	for _, blk := range strings.Split(stderr, "==================") {
		if !strings.Contains(blk, "WARNING: DATA RACE") {
			continue
		}
		// the two access stacks come first; "Goroutine N (...) created at:" sections follow
		body := blk
		if i := strings.Index(body, "\nGoroutine "); i >= 0 {
			body = body[:i]
		}
		var tops []string
		for _, sec := range strings.Split(body, "\n\n") {
			lines := strings.Split(strings.TrimSpace(sec), "\n")
			if len(lines) > 0 && strings.HasPrefix(lines[0], "WARNING: DATA RACE") {
				lines = lines[1:]
			}
			if len(lines) < 2 || !(strings.Contains(lines[0], " at 0x") && strings.Contains(lines[0], "by ")) {
				continue
			}
			top := ""
			for i := 1; i+1 < len(lines); i += 2 {
				fn := strings.TrimSpace(lines[i])
				loc := strings.TrimSpace(lines[i+1])
				if strings.HasPrefix(fn, "github.com/uber/tchannel-go") || strings.HasPrefix(fn, "vsim.") || strings.HasPrefix(fn, "vsim/") {
					if j := strings.Index(loc, "/lib/"); j >= 0 {
						loc = loc[j+5:]
					}
					if j := strings.Index(loc, " +0x"); j >= 0 {
						loc = loc[:j]
					}
					top = fn + " " + loc
					break
				}
			}
			tops = append(tops, top)
		}
		rr := raceReport{text: strings.TrimSpace(blk)}
		if len(rr.text) > 4000 {
			rr.text = rr.text[:4000] + "..."
		}
		rr.lib = len(tops) >= 2
		for _, t := range tops {
			if !strings.HasPrefix(t, "github.com/uber/tchannel-go") || strings.Contains(t, "/simrt.") {
				rr.lib = false
			}
		}
		sort.Strings(tops)
		rr.key = strings.Join(tops, " <-> ")
		if rr.lib {
			rr.text = "data race between " + rr.key + "\n" + rr.text
		}
		out = append(out, rr)
	}
	return out
}

func panicInLibrary(stack string) bool {
	// the panicking frame (first non-runtime frame after "panic(") is library code
	lines := strings.Split(stack, "\n")
	seenPanic := false
	for _, l := range lines {
		if strings.HasPrefix(l, "panic(") {
			seenPanic = true
			continue
		}
		if !seenPanic || strings.HasPrefix(l, "\t") || strings.HasPrefix(l, "runtime.") || l == "" {
			continue
		}
		return strings.HasPrefix(l, "github.com/uber/tchannel-go") && !strings.Contains(l, "/simrt.")
	}
	return false
}

func codecStack(stack string) bool {
	for _, k := range []string{"/thrift.", "/thrift/arg2.", "/json.", "/http.", "/typed."} {
		if strings.Contains(stack, "github.com/uber/tchannel-go"+k) {
			return true
		}
	}
	return false
}

func topLibFrames(stack string, n int) string {
	var sb strings.Builder
	k := 0
	lines := strings.Split(stack, "\n")
	for i, l := range lines {
		if strings.HasPrefix(l, "github.com/uber/tchannel-go") && !strings.Contains(l, "/simrt.") && i+1 < len(lines) {
			loc := strings.TrimSpace(lines[i+1])
			if j := strings.Index(loc, "/lib/"); j >= 0 {
				loc = loc[j+5:]
			}
			fmt.Fprintf(&sb, "    %s  %s\n", strings.TrimPrefix(l, "github.com/uber/tchannel-go"), loc)
			k++
			if k >= n {
				break
			}
		}
	}
	return sb.String()
}

// crashStack keeps the fatal error line and the first goroutine stacks that mention the library.
func crashStack(stderr string) string {
	i := strings.Index(stderr, "fatal error:")
	if i < 0 {
		i = 0
	}
	s := stderr[i:]
	var keep []string
	for _, l := range strings.Split(s, "\n") {
		if strings.HasPrefix(l, "fatal error") || strings.HasPrefix(l, "goroutine ") || strings.Contains(l, "tchannel-go") {
			keep = append(keep, l)
		}
		if len(keep) > 40 {
			break
		}
	}
	return strings.Join(keep, "\n")
}

func firstLines(s string, n int) string {
	ls := strings.Split(s, "\n")
	if len(ls) > n {
		ls = ls[:n]
	}
	return strings.Join(ls, "\n")
}

// sameFailure reports whether r shows the violation (prop, rule).
// activeFindings: while a violation that is NOT a known finding is being replayed and
// minimised, a candidate only counts if it still is not one (shrinking must not morph a new
// violation into a recorded one of the same rule).
var activeFindings []*Finding

func hasViolation(prop, rule string, r *RunResult, bin string, idx int) bool {
	for _, v := range violationsFor(prop, r, bin, idx) {
		if v.Rule == rule && matchFinding(activeFindings, v) == nil {
			return true
		}
	}
	return false
}

// ---- parallel map ----

func parallel(n, workers int, f func(i int)) {
	var wg sync.WaitGroup
	ch := make(chan int)
	for w := 0; w < workers; w++ {
		wg.Add(1)
		go func() {
			defer wg.Done()
			for i := range ch {
				f(i)
			}
		}()
	}
	for i := 0; i < n; i++ {
		ch <- i
	}
	close(ch)
	wg.Wait()
}

func main() {
	if len(os.Args) < 2 {
		fatal2("usage: vcheck run|replay|selftest ...")
	}
	var err error
	workDir, err = os.MkdirTemp("/var/tmp", "vcheck-work-")
	if err != nil {
		fatal2("%v", err)
	}
	code := 0
	func() {
		defer os.RemoveAll(workDir)
		switch os.Args[1] {
		case "run":
			code = cmdRun(os.Args[2:])
		case "replay":
			code = cmdReplay(os.Args[2:])
		case "selftest":
			code = cmdSelftest(os.Args[2:])
		case "build":
			fmt.Println(buildBinary(false))
		default:
			fatal2("unknown command %s", os.Args[1])
		}
	}()
	os.Exit(code)
}

func seedFromEnv() uint64 {
	if v := os.Getenv("VERIF_SEED"); v != "" {
		n, err := strconv.ParseInt(v, 10, 64)
		if err != nil {
			u, err2 := strconv.ParseUint(v, 10, 64)
			if err2 != nil {
				fatal2("VERIF_SEED=%q is not an integer", v)
			}
			return u
		}
		return uint64(n)
	}
	return 20260925
}

var _ = flag.Parse
