package vsim

import (
	"context"
	"fmt"
	"net"
	"time"

	tchannel "github.com/uber/tchannel-go"
)

func init() { families["retry"] = famRetry }

var retryPolicies = []tchannel.RetryOn{tchannel.RetryDefault, tchannel.RetryConnectionError, tchannel.RetryNever, tchannel.RetryNonIdempotent, tchannel.RetryUnexpected, tchannel.RetryIdempotent}
var retryPolicyNames = []string{"default", "connection-error", "never", "non-idempotent", "unexpected", "idempotent"}

// error classes, each produced by the simulated system
const (
	ecBusy = iota
	ecDeclined
	ecBadRequest
	ecNetworkCut     // connection cut while the call is in flight
	ecNetworkRefused // nothing listens at the peer's address
	ecUnexpected
	ecTimeoutLocal // blackholed call + per-attempt timeout
	ecTimeoutCode  // handler answers with the timeout code
	ecCancelledCode
	ecProtocol      // handler answers with a protocol error (fatal: the connection goes down)
	ecOther         // remaining codes (0x08, 0x40)
	ecNetTimeoutErr // the attempt itself returns a net.Error whose Timeout() is true (a socket deadline firing in application code)
	ecCount
)

var ecNames = []string{"busy", "declined", "bad-request", "network(cut)", "network(refused)", "unexpected", "timeout(local)", "timeout(code)", "cancelled(code)", "protocol", "other-code", "network(net.Error timeout)"}

// specCanRetry is the retry table written from the documentation (the
// statement of C17), independently of the implementation.
func specCanRetry(policy int, class int) bool {
	name := retryPolicyNames[policy]
	if name == "never" {
		return false
	}
	switch class {
	case ecBusy, ecDeclined:
		return true
	case ecBadRequest:
		return false
	case ecNetworkCut, ecNetworkRefused, ecNetTimeoutErr:
		return name == "connection-error" || name == "default" || name == "idempotent"
	case ecUnexpected:
		return name == "unexpected" || name == "idempotent"
	default:
		return name == "idempotent"
	}
}

var retryMaxAttempts = []int{0, 1, 2, 3, 4, 5, 6}
var retrySuccessAt = []int{1, 2, 3, 5, 6, 7, 0} // 0 = never succeeds

func famRetry(w *World) {
	w.Grid = time.Millisecond
	w.NoFault = false
	// how an attempt places its call: through the sub-channel (its peer list selects), by
	// host:port through the channel on odd attempts, or by selecting from the list itself
	// and calling the peer
	const hows = 3
	base := len(retryPolicies) * ecCount * len(retryMaxAttempts) * len(retrySuccessAt) * 2 * hows
	// a second block: the OVERALL deadline (1 s) passes while the first attempt is still
	// busy failing (the function returns its error late), no attempt ever succeeds. The
	// documented loop does not look at the deadline: it goes on while the policy allows,
	// every later attempt failing at once with whatever an expired context gives it.
	lateBlock := len(retryPolicies) * ecCount * len(retryMaxAttempts) * 2 * hows
	// a third block: several RunWithRetry invocations at once on one channel (after one that
	// ended on an error the policy does not retry, or not): each keeps its own attempt
	// numbers and its own set of tried peers
	concBlock := len(retryPolicies) * 2 * 3
	total := base + lateBlock + concBlock
	if w.cfg.Case == -2 {
		w.Probes["enum.cases"] = total
		return
	}
	c := w.cfg.Case
	if c < 0 {
		c = scn(total)
	}
	if c >= base+lateBlock {
		w.retryConcurrent(c - base - lateBlock)
		return
	}
	x := c
	late := c >= base
	if late {
		x = c - base
	}
	how := x % hows
	x /= hows
	perAttempt := x%2 == 1
	x /= 2
	succAt := 0
	if !late {
		succAt = retrySuccessAt[x%len(retrySuccessAt)]
		x /= len(retrySuccessAt)
	}
	maxA := retryMaxAttempts[x%len(retryMaxAttempts)]
	x /= len(retryMaxAttempts)
	class := x % ecCount
	x /= ecCount
	policy := x
	if class == ecTimeoutLocal {
		perAttempt = true
	}
	npeers := 1 + (c/hows)%3
	w.drawSchedule(false)
	w.linkDefaults()
	w.describe("retry policy=%s class=%s maxAttempts=%d successAt=%d perAttemptTimeout=%v peers=%d how=%d overall-deadline-passes-in-attempt-1=%v", retryPolicyNames[policy], ecNames[class], maxA, succAt, perAttempt, npeers, how, late)
	w.eval("C17.case")

	attempts := 0 // attempts that reached a server
	var servers []*Node
	cli := w.addNode(NodeOpts{Name: "c0", Service: "client0", Host: "10.0.3.1", Conn: w.connOptsBig()})
	handle := func(n *Node) tchannel.Handler {
		return tchannel.HandlerFunc(func(ctx context.Context, call *tchannel.InboundCall) {
			attempts++
			k := attempts
			readArg(call.Arg2Reader())(0, 0)
			readArg(call.Arg3Reader())(0, 0)
			resp := call.Response()
			if k == succAt {
				writeArg(resp.Arg2Writer())([]byte("ok"), 0)
				writeArg(resp.Arg3Writer())([]byte(fmt.Sprintf("attempt %d", k)), 0)
				return
			}
			code := tchannel.ErrCodeInvalid
			switch class {
			case ecBusy:
				code = tchannel.ErrCodeBusy
			case ecDeclined:
				code = tchannel.ErrCodeDeclined
			case ecBadRequest:
				code = tchannel.ErrCodeBadRequest
			case ecUnexpected:
				code = tchannel.ErrCodeUnexpected
			case ecTimeoutCode:
				code = tchannel.ErrCodeTimeout
			case ecCancelledCode:
				code = tchannel.ErrCodeCancelled
			case ecProtocol:
				code = tchannel.ErrCodeProtocol
			case ecOther:
				code = []tchannel.SystemErrCode{0x08, 0x40}[k%2]
			case ecNetworkCut:
				for _, l := range w.Net.Links {
					if l.B.Owner == n.Name && l.CutEv == 0 && l.CloseEv[0] == 0 && l.CloseEv[1] == 0 {
						w.Net.Fired["net.cut"]++
						l.reset(w.Net, "retry: cut in flight")
					}
				}
				return
			case ecTimeoutLocal:
				resp.Blackhole()
				w.Net.Fired["app.blackhole"]++
				return
			}
			resp.SendSystemError(tchannel.NewSystemError(code, "class %s attempt %d", ecNames[class], k))
		})
	}
	sc := cli.Ch.GetSubChannel("svc")
	var allPeers []string
	for i := 0; i < npeers; i++ {
		hp := fmt.Sprintf("10.0.2.%d:%d", i+1, 5000+i)
		if class != ecNetworkRefused {
			n := w.addNode(NodeOpts{Name: fmt.Sprintf("s%d", i), Service: "svc", Host: fmt.Sprintf("10.0.2.%d", i+1), Port: 5000 + i, Conn: w.connOptsBig()})
			n.Ch.Register(handle(n), "m")
			servers = append(servers, n)
		} else {
			w.Net.Fired["net.refuse"]++
		}
		sc.Peers().Add(hp)
		allPeers = append(allPeers, hp)
	}
	opts := &tchannel.RetryOptions{MaxAttempts: maxA, RetryOn: retryPolicies[policy]}
	if perAttempt {
		opts.TimeoutPerAttempt = 300 * time.Millisecond
	}
	overall := 20 * time.Second
	if late {
		overall = time.Second
	}
	ctx, cancel := tchannel.NewContextBuilder(overall).SetRetryOptions(opts).Build()
	defer cancel()
	overallEnd := time.Now().Add(overall)
	type seen struct {
		attempt int
		prev    []string
		peer    string
		err     error
	}
	var calls []seen
	err := cli.Ch.RunWithRetry(ctx, func(ctx context.Context, rs *tchannel.RequestState) error {
		s := seen{attempt: rs.Attempt, prev: sortedKeys(rs.SelectedPeers)}
		var call *tchannel.OutboundCall
		var err error
		if class == ecNetTimeoutErr && rs.Attempt != succAt {
			// a genuine network timeout error from the application's own socket use
			attempts++ // (counts as an attempt "that got through" for the server-side tally)
			s.err = errTimeout
			calls = append(calls, s)
			w.event("attempt", "#%d returns %v (net.Error, Timeout()=true)", s.attempt, errTimeout)
			if late && rs.Attempt == 1 {
				sleep(time.Until(overallEnd) + 50*time.Millisecond)
			}
			return errTimeout
		}
		switch {
		case how == 1 && rs.Attempt%2 == 1:
			// by host:port: the first peer this request has not tried yet
			hp := allPeers[0]
			for _, p := range allPeers {
				if _, tried := rs.SelectedPeers[p]; !tried {
					hp = p
					break
				}
			}
			call, err = cli.Ch.BeginCall(ctx, hp, "svc", "m", &tchannel.CallOptions{RequestState: rs})
			w.probe("C17.attempt-by-hostport")
		case how == 2:
			var p *tchannel.Peer
			if p, err = sc.Peers().Get(rs.PrevSelectedPeers()); err == nil {
				call, err = p.BeginCall(ctx, "svc", "m", &tchannel.CallOptions{RequestState: rs})
			}
			w.probe("C17.attempt-by-own-selection")
		default:
			call, err = sc.BeginCall(ctx, "m", &tchannel.CallOptions{RequestState: rs})
		}
		if err == nil {
			s.peer = call.RemotePeer().HostPort
			err = writeArg(call.Arg2Writer())([]byte("a2"), 0)
			if err == nil {
				err = writeArg(call.Arg3Writer())([]byte("a3"), 0)
			}
			if err == nil {
				_, err = readArg(call.Response().Arg2Reader())(0, 0)
			}
			if err == nil {
				_, err = readArg(call.Response().Arg3Reader())(0, 0)
			}
		}
		s.err = err
		calls = append(calls, s)
		w.event("attempt", "#%d peer=%s prev=%v err=%s", s.attempt, s.peer, s.prev, errStr(err))
		if late && rs.Attempt == 1 && err != nil {
			// the function is slow to come back with its error: the overall deadline passes
			sleep(time.Until(overallEnd) + 50*time.Millisecond)
			w.probe("C17.overall-deadline-passed-before-first-error-returned")
		}
		return err
	})
	w.probe("ops.done")
	if late {
		w.retryLateVerdict(policy, class, maxA, perAttempt, npeers, err, len(calls), func(i int) (int, error) { return calls[i].attempt, calls[i].err })
		w.quiesce(2*time.Second, true)
		return
	}

	// ---- the reference ----
	budget := maxA
	if budget == 0 {
		budget = 5
	}
	wantCalls := 0
	wantOK := false
	effSucc := succAt
	if class == ecNetworkRefused {
		effSucc = 0 // nobody listens: no attempt can succeed
	}
	for k := 1; k <= budget; k++ {
		wantCalls = k
		if k == effSucc {
			wantOK = true
			break
		}
		if !specCanRetry(policy, class) {
			break
		}
	}
	desc := fmt.Sprintf("policy=%s class=%s MaxAttempts=%d successAt=%d perAttempt=%v peers=%d", retryPolicyNames[policy], ecNames[class], maxA, succAt, perAttempt, npeers)
	if len(calls) != wantCalls {
		w.violate("C17", "attempt-count", "%s: the function ran %d times, the documented policy gives %d", desc, len(calls), wantCalls)
	}
	if wantOK != (err == nil) {
		w.violate("C17", "final-result", "%s: RunWithRetry returned %s, want success=%v", desc, errStr(err), wantOK)
	}
	if err != nil && len(calls) > 0 && err != calls[len(calls)-1].err {
		w.violate("C17", "not-last-error", "%s: RunWithRetry returned %s, the last attempt failed with %s", desc, errStr(err), errStr(calls[len(calls)-1].err))
	}
	tried := map[string]bool{}
	for i, s := range calls {
		if s.attempt != i+1 {
			w.violate("C17", "attempt-number", "%s: invocation %d saw Attempt=%d", desc, i+1, s.attempt)
		}
		// peers already tried are visible to the attempt (host:port and host)
		for _, hp := range sortedKeys(tried) {
			found, foundHost := false, false
			for _, p := range s.prev {
				if p == hp {
					found = true
				}
				if p == hostOf(hp) {
					foundHost = true
				}
			}
			if !found || !foundHost {
				w.violate("C17", "selected-peers-missing", "%s: attempt %d does not see previously tried peer %s (and its host) in %v", desc, s.attempt, hp, s.prev)
			}
		}
		if s.peer != "" {
			if tried[s.peer] && len(tried) < npeers {
				w.violate("C17", "tried-peer-reused", "%s: attempt %d went to %s again although %d of %d peers were still untried", desc, s.attempt, s.peer, npeers-len(tried), npeers)
			}
			tried[s.peer] = true
		}
	}
	// the servers saw exactly the attempts that got through
	if class != ecNetworkRefused && attempts != len(calls) {
		w.violate("C17", "server-attempt-count", "%s: servers handled %d attempts, the function ran %d times", desc, attempts, len(calls))
	}
	w.quiesce(2*time.Second, true)
	_ = servers
}

// specClassOf classifies an attempt's error for the documented table, from the
// error value itself (code of a system error, net.Error, the context errors).
func specClassOf(err error) int {
	if se, ok := err.(tchannel.SystemError); ok {
		switch se.Code() {
		case tchannel.ErrCodeBusy:
			return ecBusy
		case tchannel.ErrCodeDeclined:
			return ecDeclined
		case tchannel.ErrCodeBadRequest:
			return ecBadRequest
		case tchannel.ErrCodeNetwork:
			return ecNetworkCut
		case tchannel.ErrCodeUnexpected:
			return ecUnexpected
		case tchannel.ErrCodeTimeout:
			return ecTimeoutCode
		case tchannel.ErrCodeCancelled:
			return ecCancelledCode
		case tchannel.ErrCodeProtocol:
			return ecProtocol
		}
		return ecOther
	}
	if _, ok := err.(net.Error); ok {
		return ecNetworkCut
	}
	return ecOther
}

// retryLateVerdict judges a run of the second block by its trace: after every
// attempt but the last the policy must have allowed a retry, the last one must
// be the budget's last or carry an error the policy does not retry, and the
// returned error is the last attempt's.
func (w *World) retryLateVerdict(policy, class, maxA int, perAttempt bool, npeers int, err error, n int, at func(i int) (int, error)) {
	budget := maxA
	if budget == 0 {
		budget = 5
	}
	desc := fmt.Sprintf("policy=%s class=%s MaxAttempts=%d never succeeds, perAttempt=%v peers=%d, overall deadline passes before attempt 1 returns its error", retryPolicyNames[policy], ecNames[class], maxA, perAttempt, npeers)
	if n == 0 || n > budget {
		w.violate("C17", "attempt-count", "%s: the function ran %d times with a budget of %d", desc, n, budget)
		return
	}
	for i := 0; i < n; i++ {
		num, e := at(i)
		if num != i+1 {
			w.violate("C17", "attempt-number", "%s: invocation %d saw Attempt=%d", desc, i+1, num)
		}
		if e == nil {
			w.violate("C17", "harness", "%s: attempt %d succeeded", desc, i+1)
			return
		}
		can := specCanRetry(policy, specClassOf(e))
		if i < n-1 && !can {
			w.violate("C17", "attempt-count", "%s: attempt %d failed with %s, which the policy does not retry, yet attempt %d was made", desc, i+1, errStr(e), i+2)
		}
		if i == n-1 && can && n < budget {
			w.violate("C17", "attempt-count", "%s: attempt %d of %d failed with %s, which the policy retries, yet no further attempt was made (RunWithRetry returned %s)", desc, i+1, budget, errStr(e), errStr(err))
		}
	}
	if _, last := at(n - 1); err != last {
		w.violate("C17", "not-last-error", "%s: RunWithRetry returned %s, the last attempt failed with %s", desc, errStr(err), errStr(last))
	}
	if err == nil {
		w.violate("C17", "final-result", "%s: RunWithRetry returned success", desc)
	}
}

// retryConcurrent: case k of the third block.
func (w *World) retryConcurrent(k int) {
	n := 2 + k%3
	k /= 3
	pre := k%2 == 1
	k /= 2
	policy := k
	w.drawSchedule(false)
	w.linkDefaults()
	w.describe("retry concurrent: policy=%s invocations=%d preceded-by-non-retriable=%v", retryPolicyNames[policy], n, pre)
	w.eval("C17.case")
	cli := w.addNode(NodeOpts{Name: "c0", Service: "client0", Host: "10.0.3.1", Conn: w.connOptsBig()})
	seen := map[string]int{}
	sc := cli.Ch.GetSubChannel("svc")
	for i := 0; i < 3; i++ {
		srv := w.addNode(NodeOpts{Name: fmt.Sprintf("s%d", i), Service: "svc", Host: fmt.Sprintf("10.0.2.%d", i+1), Port: 5000 + i, Conn: w.connOptsBig()})
		srv.Ch.Register(tchannel.HandlerFunc(func(ctx context.Context, call *tchannel.InboundCall) {
			a2, _ := readArg(call.Arg2Reader())(0, 0)
			readArg(call.Arg3Reader())(0, 0)
			tag := string(a2)
			seen[tag]++
			resp := call.Response()
			switch {
			case tag == "nr":
				resp.SendSystemError(tchannel.NewSystemError(tchannel.ErrCodeBadRequest, "not retried under any policy"))
			case seen[tag] == 1:
				resp.SendSystemError(tchannel.ErrServerBusy)
			default:
				writeArg(resp.Arg2Writer())(a2, 0)
				writeArg(resp.Arg3Writer())([]byte("ok"), 0)
			}
		}), "m")
		sc.Peers().Add(srv.HostPort)
	}
	type att struct {
		num  int
		prev []string
		peer string
	}
	invoke := func(tag string) ([]att, error) {
		ctx, cancel := tchannel.NewContextBuilder(10 * time.Second).SetRetryOptions(&tchannel.RetryOptions{MaxAttempts: 4, RetryOn: retryPolicies[policy]}).Build()
		defer cancel()
		var atts []att
		err := cli.Ch.RunWithRetry(ctx, func(ctx context.Context, rs *tchannel.RequestState) error {
			a := att{num: rs.Attempt, prev: sortedKeys(rs.SelectedPeers)}
			call, err := sc.BeginCall(ctx, "m", &tchannel.CallOptions{RequestState: rs})
			if err == nil {
				a.peer = call.RemotePeer().HostPort
				if err = writeArg(call.Arg2Writer())([]byte(tag), 0); err == nil {
					err = writeArg(call.Arg3Writer())(nil, 0)
				}
				if err == nil {
					_, err = readArg(call.Response().Arg2Reader())(0, 0)
				}
				if err == nil {
					_, err = readArg(call.Response().Arg3Reader())(0, 0)
				}
			}
			atts = append(atts, a)
			sleep(time.Duration(app(3)) * w.Grid) // the invocations overlap in time
			return err
		})
		return atts, err
	}
	if pre {
		atts, err := invoke("nr")
		if len(atts) != 1 || err == nil {
			w.violate("C17", "attempt-count", "a bad-request error was followed by %d attempts (err=%s); no policy retries it", len(atts), errStr(err))
		}
	}
	results := make([][]att, n)
	errs := make([]error, n)
	var fs []func()
	for i := 0; i < n; i++ {
		i := i
		fs = append(fs, func() { results[i], errs[i] = invoke(fmt.Sprintf("t%d", i)) })
	}
	w.tasks(fs...)
	w.probe("ops.done")
	never := retryPolicyNames[policy] == "never"
	for i, atts := range results {
		desc := fmt.Sprintf("policy=%s, invocation %d of %d concurrent ones (preceded by a non-retriable failure: %v)", retryPolicyNames[policy], i+1, n, pre)
		want := 2
		if never {
			want = 1
		}
		if len(atts) != want {
			w.violate("C17", "attempt-count", "%s: the function ran %d times, want %d (first attempt busy, second succeeds)", desc, len(atts), want)
		}
		if (errs[i] == nil) == never {
			w.violate("C17", "final-result", "%s: RunWithRetry returned %s", desc, errStr(errs[i]))
		}
		tried := map[string]bool{}
		for j, a := range atts {
			if a.num != j+1 {
				w.violate("C17", "attempt-number", "%s: invocation's attempt %d saw Attempt=%d", desc, j+1, a.num)
			}
			for _, p := range a.prev {
				if !tried[p] {
					w.violate("C17", "foreign-selected-peer", "%s: attempt %d sees %s among the peers already tried, which this request never tried (tried: %v)", desc, j+1, p, sortedKeys(tried))
				}
			}
			for _, hp := range sortedKeys(tried) {
				found := false
				for _, p := range a.prev {
					found = found || p == hp
				}
				if !found {
					w.violate("C17", "selected-peers-missing", "%s: attempt %d does not see %s, which this request tried before", desc, j+1, hp)
				}
			}
			if a.peer != "" {
				if tried[a.peer] {
					w.violate("C17", "tried-peer-reused", "%s: attempt %d went to %s again although untried peers exist", desc, j+1, a.peer)
				}
				tried[a.peer] = true
				tried[hostOf(a.peer)] = true
			}
		}
	}
	w.quiesce(2*time.Second, true)
}
