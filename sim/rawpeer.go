package vsim

// RawPeer is a harness task that speaks the protocol through the independent
// codec only (package wire): the hostile party, the protocol-level observer,
// and a conforming foreign implementation.
type RawPeer struct {
	w     *World
	Name  string
	Host  string
	conns []*Conn
}

// CloseAll closes every socket the raw peer still holds.
func (r *RawPeer) CloseAll() {
	for _, c := range r.conns {
		if !c.Closed() {
			c.Close()
		}
	}
}
