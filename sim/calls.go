package vsim

import (
	"bytes"
	"context"
	"errors"
	"fmt"
	"io"
	"strconv"
	"strings"
	"time"

	tchannel "github.com/uber/tchannel-go"
	"github.com/uber/tchannel-go/simrt"
)

// CallSpec is one generated call.
type CallSpec struct {
	Tag         string
	From        *Node
	To          string // host:port ("" = use the sub-channel's peer list)
	Service     string
	Method      string
	Timeout     time.Duration
	Mode        string // handler behaviour: echo, apperr, syserr, blackhole, partialerr, slowread
	Delay       time.Duration
	Code        int
	Msg         string
	Pad2        int           // size of the padding part of request arg2
	Len3        int           // size of request arg3
	Rs2, Rs3    int           // response padding/arg3 sizes (-1: mirror the request)
	WritePat    int           // 0 single write, 1 small random writes, 2 byte-wise (bounded), 3 random writes + flushes
	ReadPat     int           // 0 read to EOF, 1 exact length then Close, 2 small random reads
	ReadPat3    int           // pattern for arg3 when it differs from arg2's: value-1 (0 = same as ReadPat)
	CancelAfter time.Duration // >0: the caller cancels its context after this long
	// >0: the caller's context is cancelled at the very instant the handler is about to
	// write its response (1 = before arg2, 2 = before the last argument, 3 = right after
	// the response is complete): the cancel frame and the response's last frame travel
	// towards each other
	CancelOnResponse int
	LateRead         time.Duration // >0: the handler is busy this long between reading arg2 and reading arg3
	ReadPause        time.Duration // >0: the caller is busy this long between writing the request and reading the response
	ChunkPause       time.Duration // >0: the caller reads the response piecewise and is busy this long after each piece
	Opts             *tchannel.CallOptions
	Via              string // description of the path (direct / relay name)
	NoCheck          bool   // data oracle not applicable (e.g. hostile server)
}

// HandlerObs is what the handler observed for a call.
type HandlerObs struct {
	Entered                                     bool
	EnterEv                                     int64
	EnterAt                                     time.Duration
	Caller                                      string
	Service                                     string
	Method                                      string
	Format                                      string
	ShardKey                                    string
	RoutingKey                                  string
	RoutingDelegate                             string
	HasDeadline                                 bool
	RemainingAtEntry                            time.Duration // ctx deadline minus handler entry time
	Deadline                                    time.Duration // relative to run start
	Arg2OK, Arg3OK                              bool
	ArgsRead                                    bool // the handler read both arguments to the end without error
	Read2, Read3                                int  // argument bytes handed to the handler (also when a read failed)
	ReadErr                                     error
	RespErr                                     error
	CtxDoneAt                                   time.Duration // 0 = not observed
	CtxErr                                      error
	Waiting                                     bool          // the handler entered its delay
	DelayEnd                                    time.Duration // the delay elapsed at (0 = the context ended first)
	WaitedUntil                                 time.Duration
	DelayDone, CtxDone, CtxDoneInWait, WaitOver bool
	StallInWait                                 time.Duration
	WaitFrom                                    time.Duration // when the handler's wait (delay vs context) began
	ExitEv                                      int64
	Entries                                     int // number of times a handler was entered for this tag
	Node                                        string
}

// CallRec is the record of one call: what was asked, what came back, what the
// handler saw.
type CallRec struct {
	Spec                   CallSpec
	BeginEv                int64
	TIn, TOut              time.Duration // BeginCall invoked / returned
	BeginErr               error
	EndEv                  int64
	EndAt                  time.Duration
	Deadline               time.Duration // absolute (since run start)
	StallIn                time.Duration // scheduler stall time injected between begin and end
	Err                    error
	AppErr                 bool
	Res2, Res3             []byte
	Done                   bool
	H                      HandlerObs
	Req2, Req3             []byte
	Req2Dest               []byte            // arg2 as the destination must see it (differs from Req2 when relays append)
	Req2Hop                map[string][]byte // arg2 as emitted by a given relay node
	wantRes2, wantRes3     []byte
	Cancelled              bool
	CancelAt               time.Duration
	CancelEv               int64
	Stall0                 time.Duration // total injected stall time when the call began
	WroteEv                int64         // the request was written completely (both argument writers closed); 0 = never
	WroteAt                time.Duration
	Appended               bool  // a relay host appended key/values to arg2
	AfterClose             bool  // begun after Close returned on the calling node (must fail locally)
	TOutEv                 int64 // event number when BeginCall returned
	CorruptReq, CorruptRes bool  // a byte of the request / response was altered in transit
	Read2, Read3           int   // response argument bytes handed to the caller (also when a read failed)
	cancelFn               func()
	Paused                 time.Duration // time the CALLER spent busy in its own code between library calls (ReadPause, ChunkPause)
}

// completedNormally: the call ended with its response or with the error its
// handler sent (not with a timeout, cancellation, or transport/relay failure).
func (c *CallRec) completedNormally() bool {
	if c.Err == nil {
		return true
	}
	if se, ok := c.Err.(tchannel.SystemError); ok && c.Spec.Mode == "syserr" {
		return int(se.Code()) == c.Spec.Code && se.Message() == c.Spec.Msg && c.H.Entered
	}
	return false
}

func (c *CallRec) cmd() string {
	return fmt.Sprintf("tag=%s;mode=%s;delay=%d;code=%d;rs2=%d;rs3=%d;late=%d;msg=%s", c.Spec.Tag, c.Spec.Mode, int64(c.Spec.Delay), c.Spec.Code, c.Spec.Rs2, c.Spec.Rs3, int64(c.Spec.LateRead), c.Spec.Msg)
}

// encodeKV builds a thrift-scheme arg2: nh:2 (k~2 v~2)*.
func encodeKV(kvs [][2][]byte) []byte {
	out := []byte{byte(len(kvs) >> 8), byte(len(kvs))}
	for _, kv := range kvs {
		out = append(out, byte(len(kv[0])>>8), byte(len(kv[0])))
		out = append(out, kv[0]...)
		out = append(out, byte(len(kv[1])>>8), byte(len(kv[1])))
		out = append(out, kv[1]...)
	}
	return out
}

// decodeKV is the harness's own reading of a thrift-scheme arg2.
func decodeKV(b []byte) ([][2][]byte, bool) {
	if len(b) < 2 {
		return nil, false
	}
	n := int(b[0])<<8 | int(b[1])
	b = b[2:]
	var out [][2][]byte
	for i := 0; i < n; i++ {
		var kv [2][]byte
		for j := 0; j < 2; j++ {
			if len(b) < 2 {
				return nil, false
			}
			l := int(b[0])<<8 | int(b[1])
			if len(b) < 2+l {
				return nil, false
			}
			kv[j] = b[2 : 2+l]
			b = b[2+l:]
		}
		out = append(out, kv)
	}
	return out, len(b) == 0
}

// parseArg2 understands both request encodings (text and thrift key/values).
func parseArg2(thrift bool, b []byte) (cmd map[string]string, pad []byte, extra [][2][]byte) {
	if !thrift {
		cmd, pad = parseCmd(b)
		return
	}
	kvs, ok := decodeKV(b)
	if !ok || len(kvs) < 2 || string(kvs[0][0]) != "c" || string(kvs[1][0]) != "p" {
		return nil, nil, nil
	}
	cmd, _ = parseCmd(append(append([]byte(nil), kvs[0][1]...), '\n'))
	return cmd, kvs[1][1], kvs[2:]
}

func parseCmd(b []byte) (map[string]string, []byte) {
	i := bytes.IndexByte(b, '\n')
	if i < 0 {
		return nil, nil
	}
	m := map[string]string{}
	for _, kv := range strings.Split(string(b[:i]), ";") {
		if j := strings.IndexByte(kv, '='); j > 0 {
			m[kv[:j]] = kv[j+1:]
		}
	}
	return m, b[i+1:]
}

func (w *World) newCall(s CallSpec) *CallRec {
	if s.Tag == "" {
		s.Tag = fmt.Sprintf("c%d", len(w.Calls)+1)
	}
	if s.Method == "" {
		s.Method = "echo"
	}
	if s.Mode == "" {
		s.Mode = "echo"
	}
	r := &CallRec{Spec: s}
	pad := payload(s.Tag, 2, s.Pad2)
	if s.Opts != nil && s.Opts.Format == tchannel.Thrift {
		if len(pad) > 65000 {
			pad = pad[:65000]
		}
		r.Req2 = encodeKV([][2][]byte{{[]byte("c"), []byte(r.cmd())}, {[]byte("p"), pad}})
	} else {
		r.Req2 = append([]byte(r.cmd()+"\n"), pad...)
	}
	r.Req2Dest = r.Req2
	r.Req3 = payload(s.Tag, 3, s.Len3)
	r.wantRes2, r.wantRes3 = expectedResponse(s.Tag, s.Rs2, s.Rs3, pad, r.Req3)
	w.Calls = append(w.Calls, r)
	w.callTag[s.Tag] = r
	return r
}

func expectedResponse(tag string, rs2, rs3 int, pad2, req3 []byte) ([]byte, []byte) {
	var a2, a3 []byte
	if rs2 < 0 {
		a2 = append([]byte("r;"+tag+"\n"), respond(pad2)...)
	} else {
		a2 = append([]byte("r;"+tag+"\n"), payload(tag, 12, rs2)...)
	}
	if rs3 < 0 {
		a3 = respond(req3)
	} else {
		a3 = payload(tag, 13, rs3)
	}
	return a2, a3
}

// writeArg writes data with the given pattern.
// hasPoison: does b contain a run of the byte the tracking pool fills released frames with?
// (payloads are position- and tag-dependent and never contain such a run)
func hasPoison(b []byte) bool {
	run := 0
	for _, x := range b {
		if x == 0xA5 {
			run++
			if run >= 16 {
				return true
			}
		} else {
			run = 0
		}
	}
	return false
}

// flushProbe counts explicit flushes issued by the write patterns (index: how many more follow
// back to back); copied into the run's probes.
var flushProbe [4]int

// sloppyFlush: an application that, when a Flush fails, flushes once more and closes
// the writer (a retry, a deferred Close) before giving up, or goes on writing. The library has to answer
// with errors; it must not touch a frame it no longer owns.
func sloppyFlush(wr tchannel.ArgWriter, err error) error {
	switch app(3) {
	case 1:
		flushProbe[3]++
		wr.Flush()
		wr.Close()
	case 2:
		// ... or does not look at the error of Flush at all and goes on writing
		flushProbe[3]++
		wr.Write([]byte("written after a failed flush"))
		wr.Close()
	}
	return err
}

func writeArgRaw(wr tchannel.ArgWriter, err error, data []byte, pat int) error {
	if err != nil {
		return err
	}
	switch pat {
	case 0:
		if _, err := wr.Write(data); err != nil {
			return err
		}
	default:
		rest := data
		// explicit flushes at any point: before the first byte, repeated with nothing (or an
		// empty write) in between, and right before Close
		flushes := func() error {
			if pat != 3 {
				return nil
			}
			for k := app(8); k >= 5; k-- { // 5: one flush, 6: two, 7: three
				flushProbe[k-5]++
				if err := wr.Flush(); err != nil {
					return sloppyFlush(wr, err)
				}
				if k > 5 && app(3) == 2 {
					if _, err := wr.Write(nil); err != nil {
						return err
					}
				}
			}
			return nil
		}
		if err := flushes(); err != nil {
			return err
		}
		for len(rest) > 0 {
			n := len(rest)
			switch pat {
			case 1, 3:
				// a zero on the tape is the plainest choice: write everything at once
				k := app(4097)
				if app(4) == 3 {
					k = app(70001)
				}
				if k > 0 && k < n {
					n = k
				}
			case 2:
				if n > 1 && len(data)-len(rest) < 300 {
					n = 1
				}
			}
			if app(16) == 15 {
				if _, err := wr.Write(nil); err != nil { // zero-length write
					return err
				}
			}
			if _, err := wr.Write(rest[:n]); err != nil {
				return err
			}
			rest = rest[n:]
			if pat == 3 && app(3) == 2 {
				if err := wr.Flush(); err != nil {
					return sloppyFlush(wr, err)
				}
			}
			if err := flushes(); err != nil {
				return err
			}
		}
	}
	return wr.Close()
}

// readArg reads one argument with the given pattern. want is the expected
// length (used by the exact-length pattern only).
func readArgRaw(rd tchannel.ArgReader, err error, pat int, want int) ([]byte, error) {
	var unused time.Duration
	return readArgPaused(rd, err, pat, want, 0, &unused)
}

// readArgPaused: with pause > 0 the consumer reads piecewise and is busy for
// that long after every piece (it is then NOT parked inside the library).
func readArgPaused(rd tchannel.ArgReader, err error, pat int, want int, pause time.Duration, paused *time.Duration) ([]byte, error) {
	if err != nil {
		return nil, err
	}
	var out []byte
	if pause > 0 {
		buf := make([]byte, 16<<10)
		for {
			n, err := rd.Read(buf)
			out = append(out, buf[:n]...)
			if err == io.EOF {
				break
			}
			if err != nil {
				rd.Close()
				return out, err
			}
			sleep(pause)
			*paused += pause
		}
		return out, rd.Close()
	}
	switch pat {
	case 1: // exactly the argument's bytes, then Close without observing EOF
		out = make([]byte, want)
		if n, err := io.ReadFull(rd, out); err != nil {
			rd.Close()
			return out[:n], err
		}
	case 2:
		buf := make([]byte, 5000-app(5000))
		for {
			n, err := rd.Read(buf[:len(buf)-app(len(buf))])
			out = append(out, buf[:n]...)
			if err == io.EOF {
				break
			}
			if err != nil {
				rd.Close()
				return out, err
			}
		}
	default:
		var b bytes.Buffer
		if _, err := b.ReadFrom(rd); err != nil {
			rd.Close()
			return b.Bytes(), err
		}
		out = b.Bytes()
	}
	return out, rd.Close()
}

// Call performs the call synchronously in the calling task and records it.
func (w *World) Call(r *CallRec) {
	s := &r.Spec
	sched := simrt.Cur()
	var ctx context.Context
	var cancel context.CancelFunc
	cb := tchannel.NewContextBuilder(s.Timeout)
	ctx, cancel = cb.Build()
	defer cancel()
	stall0 := sched.Stalled()
	r.Stall0 = stall0
	r.BeginEv = w.event("call-begin", "%s %s->%s %s mode=%s to=%v a2=%d a3=%d", s.Tag, s.From.Name, s.To, s.Via, s.Mode, s.Timeout, len(r.Req2), len(r.Req3))
	r.TIn = simrt.Elapsed()
	r.Deadline = r.TIn + s.Timeout
	simrt.AddInstant(time.Now().Add(s.Timeout))
	doCancel := func() {
		if !r.Done && !r.Cancelled {
			r.Cancelled = true
			r.CancelAt = simrt.Elapsed()
			r.CancelEv = w.event("call-cancel", "%s", s.Tag)
			cancel()
		}
	}
	if s.CancelAfter > 0 {
		t := time.AfterFunc(s.CancelAfter, doCancel)
		defer t.Stop()
	}
	if s.CancelOnResponse > 0 {
		r.cancelFn = doCancel
	}
	finish := func(err error) {
		r.Err = err
		r.Done = true
		r.EndAt = simrt.Elapsed()
		r.StallIn = sched.Stalled() - stall0
		r.EndEv = w.event("call-end", "%s err=%v app=%v", s.Tag, errStr(err), r.AppErr)
		w.checkCallOutcome(r)
	}
	var call *tchannel.OutboundCall
	var err error
	if s.To != "" {
		call, err = s.From.Ch.BeginCall(ctx, s.To, s.Service, s.Method, s.Opts)
	} else {
		call, err = s.From.Ch.GetSubChannel(s.Service).BeginCall(ctx, s.Method, s.Opts)
	}
	r.TOut = simrt.Elapsed()
	r.TOutEv = w.tick()
	if err != nil {
		r.BeginErr = err
		finish(err)
		return
	}
	if err := writeArg(call.Arg2Writer())(r.Req2, s.WritePat); err != nil {
		finish(err)
		return
	}
	if err := writeArg(call.Arg3Writer())(r.Req3, s.WritePat); err != nil {
		finish(err)
		return
	}
	r.WroteEv = w.tick()
	r.WroteAt = simrt.Elapsed()
	if s.ReadPause > 0 {
		sleep(s.ReadPause)
		r.Paused += s.ReadPause
	}
	resp := call.Response()
	a2r, a2e := resp.Arg2Reader()
	a2, err := readArgPaused(a2r, a2e, s.ReadPat, len(r.wantRes2), s.ChunkPause, &r.Paused)
	r.Read2 = len(a2)
	if err != nil {
		finish(err)
		return
	}
	r.AppErr = resp.ApplicationError()
	rp3 := s.ReadPat
	if s.ReadPat3 > 0 {
		rp3 = s.ReadPat3 - 1
	}
	a3r, a3e := resp.Arg3Reader()
	a3, err := readArgPaused(a3r, a3e, rp3, len(r.wantRes3), s.ChunkPause, &r.Paused)
	r.Read3 = len(a3)
	if err != nil {
		finish(err)
		return
	}
	r.Res2, r.Res3 = a2, a3
	finish(nil)
}

// small adapters so that the (value, error) pairs can be passed straight through
func writeArg(wr tchannel.ArgWriter, err error) func([]byte, int) error {
	return func(d []byte, pat int) error { return writeArgRaw(wr, err, d, pat) }
}
func readArg(rd tchannel.ArgReader, err error) func(int, int) ([]byte, error) {
	return func(pat, want int) ([]byte, error) { return readArgRaw(rd, err, pat, want) }
}

func errStr(err error) string {
	if err == nil {
		return "<nil>"
	}
	if se, ok := err.(tchannel.SystemError); ok {
		return fmt.Sprintf("SystemError(%v,%q)", se.Code(), trunc(se.Message(), 80))
	}
	return trunc(err.Error(), 120)
}

func trunc(s string, n int) string {
	if len(s) > n {
		return s[:n] + "..."
	}
	return s
}

// checkCallOutcome applies the per-call oracles of C04/C05/C20 that need no
// other context.
func (w *World) checkCallOutcome(r *CallRec) {
	s := &r.Spec
	// C05(a): control returns by the deadline (+ injected stall + one grid tick)
	w.eval("C05.deadline")
	slack := r.StallIn + w.Grid + r.Paused // (a caller busy in its own code is not waiting on the library)
	if r.EndAt > r.Deadline+slack {
		w.violate("C05", "deadline-overrun", "call %s (%s) returned at %v, deadline %v (+%v injected stall): overrun %v; err=%s",
			s.Tag, s.Via, r.EndAt, r.Deadline, r.StallIn, r.EndAt-r.Deadline-r.StallIn, errStr(r.Err))
	}
	// C14 / C05: a caller that cancels gets control back at once, wherever the call stands
	// (once BeginCall has returned: while a connection is being established the library waits
	// on the socket with the context's DEADLINE only, which is within what C05 states)
	if r.Cancelled && r.TOutEv != 0 && r.CancelEv > r.TOutEv && r.BeginErr == nil && s.ReadPause == 0 && s.ChunkPause == 0 { // (a caller busy in its own code notices later, of course)
		w.eval("C14.cancel-ends-wait")
		if r.EndAt > r.CancelAt+r.StallIn+w.Grid {
			d := fmt.Sprintf("call %s (%s) was cancelled by its caller at %v and returned only at %v (+%v injected stall): %v later; err=%s",
				s.Tag, s.Via, r.CancelAt, r.EndAt, r.StallIn, r.EndAt-r.CancelAt-r.StallIn, errStr(r.Err))
			w.violate("C14", "cancel-does-not-end-wait", "%s", d)
			w.violate("C05", "cancel-does-not-end-wait", "%s", d)
		}
	}
	if r.Err != nil && w.corruptPlanned == false && strings.Contains(r.Err.Error(), "checksum") {
		// nobody altered a byte in transit in this run: a checksum failure means the library
		// mixed up its own state (e.g. one checksum object serving two messages)
		d := fmt.Sprintf("call %s (%s) failed with %q although no byte was altered in transit in this run", s.Tag, s.Via, r.Err.Error())
		w.violate("C04", "spurious-checksum-error", "%s", d)
		w.violate("C02", "spurious-checksum-error", "%s", d)
	}
	if r.H.ReadErr != nil && w.corruptPlanned == false && strings.Contains(r.H.ReadErr.Error(), "checksum") {
		// same on the destination side: the handler could not read the request arguments
		d := fmt.Sprintf("call %s (%s): the destination handler's argument read failed with %q although no byte was altered in transit in this run", s.Tag, s.Via, r.H.ReadErr.Error())
		w.violate("C04", "spurious-checksum-error", "%s", d)
		w.violate("C02", "spurious-checksum-error", "%s", d)
		if strings.HasPrefix(s.Via, "relay") {
			w.violate("C08", "arguments-unreadable", "%s: what the relay forwarded is not the caller's request", d)
		}
	}
	if s.NoCheck {
		return
	}
	if r.Err == nil {
		// C05(b)/C04: success means the complete, correct response of this very request
		w.eval("C04.response-match")
		ok2 := bytes.Equal(r.Res2, r.wantRes2)
		ok3 := bytes.Equal(r.Res3, r.wantRes3)
		wantApp := s.Mode == "apperr"
		if !ok2 || !ok3 || r.AppErr != wantApp {
			d := fmt.Sprintf("call %s (%s, mode %s) reported success with wrong data: arg2 %s, arg3 %s, appErr=%v want %v",
				s.Tag, s.Via, s.Mode, diffDesc(r.Res2, r.wantRes2), diffDesc(r.Res3, r.wantRes3), r.AppErr, wantApp)
			w.violate("C04", "wrong-response", "%s", d)
			if hasPoison(r.Res2) || hasPoison(r.Res3) {
				w.violate("C12", "read-after-release", "%s\nthe bytes handed to the caller contain the pattern the pool writes into a frame when it is handed back: the library read a frame it no longer owned", d)
			}
			w.violate("C05", "wrong-response-as-success", "%s", d)
			if r.AppErr != wantApp {
				w.violate("C20", "app-flag", "%s", d)
			}
		}
		if s.Mode == "syserr" || s.Mode == "blackhole" {
			w.violate("C20", "error-lost", "call %s (mode %s) succeeded although the handler sent no response body", s.Tag, s.Mode)
		}
	}
}

func diffDesc(got, want []byte) string {
	if bytes.Equal(got, want) {
		return "ok"
	}
	i := 0
	for i < len(got) && i < len(want) && got[i] == want[i] {
		i++
	}
	return fmt.Sprintf("DIFFERS(len %d want %d, first difference at %d)", len(got), len(want), i)
}

// ---- the generic handler ----

type echoHandler struct {
	w *World
	n *Node
}

func (h *echoHandler) Handle(ctx context.Context, call *tchannel.InboundCall) {
	w := h.w
	enterEv := w.tick()
	enterAt := simrt.Elapsed()
	a2, err := readArg(call.Arg2Reader())(0, 0)
	var obs *HandlerObs
	var rec *CallRec
	var cmd map[string]string
	var pad []byte
	if err == nil {
		cmd, pad, _ = parseArg2(call.Format() == tchannel.Thrift, a2)
		if cmd != nil {
			rec = w.callTag[cmd["tag"]]
		}
	}
	if rec != nil {
		obs = &rec.H
	} else {
		obs = &HandlerObs{}
	}
	obs.Entries++
	obs.Entered = true
	obs.Node = h.n.Name
	obs.EnterEv, obs.EnterAt = enterEv, enterAt
	obs.Caller = call.CallerName()
	obs.Service = call.ServiceName()
	obs.Method = call.MethodString()
	obs.Format = call.Format().String()
	obs.ShardKey = call.ShardKey()
	obs.RoutingKey = call.RoutingKey()
	obs.RoutingDelegate = call.RoutingDelegate()
	if dl, ok := ctx.Deadline(); ok {
		obs.HasDeadline = true
		obs.Deadline = simrt.Elapsed() + time.Until(dl) // both read at the same instant (reading arg2 above may have taken simulated time)
		obs.RemainingAtEntry = time.Until(dl) + (simrt.Elapsed() - enterAt)
	}
	tag := "?"
	if cmd != nil {
		tag = cmd["tag"]
	}
	w.event("handler-enter", "%s on %s err=%v", tag, h.n.Name, errStr(err))
	defer func() {
		obs.ExitEv = w.event("handler-exit", "%s on %s resperr=%v", tag, h.n.Name, errStr(obs.RespErr))
	}()
	if err != nil {
		obs.ReadErr = err
		h.reportReadError(call, tag, err)
		return
	}
	if cmd == nil {
		obs.ReadErr = errors.New("unparseable command")
		call.Response().SendSystemError(tchannel.NewSystemError(tchannel.ErrCodeBadRequest, "bad command"))
		return
	}
	mode := cmd["mode"]
	checkArgs := func(a3 []byte) {
		obs.ArgsRead = true
		if rec != nil {
			obs.Arg2OK = bytes.Equal(a2, rec.Req2Dest)
			obs.Arg3OK = bytes.Equal(a3, rec.Req3)
			w.eval("C04.request-match")
			if !obs.Arg2OK || !obs.Arg3OK {
				d := fmt.Sprintf("handler on %s received wrong arguments for call %s as a complete request: arg2 %s arg3 %s", h.n.Name, tag, diffDesc(a2, rec.Req2Dest), diffDesc(a3, rec.Req3))
				w.violate("C04", "wrong-request", "%s", d)
				w.violate("C01", "wrong-request", "%s", d)
				if rec.Spec.Via != "direct" {
					w.violate("C08", "wrong-request", "%s", d)
				}
				if hasPoison(a2) || hasPoison(a3) {
					w.violate("C12", "read-after-release", "%s\nthe bytes handed to the handler contain the pattern the pool writes into a frame when it is handed back: the library read a frame it no longer owned", d)
				}
			}
		}
	}
	if late, _ := strconv.ParseInt(cmd["late"], 10, 64); late > 0 {
		// the handler is busy between the arguments (its deadline may pass meanwhile)
		sleep(time.Duration(late))
		w.probe("handler.late-arg3-read")
	}
	if mode == "respfirst" {
		// the complete response goes out BEFORE the rest of the request is read; what is
		// read afterwards must be an error or the caller's bytes
		rs2, _ := strconv.Atoi(cmd["rs2"])
		rs3, _ := strconv.Atoi(cmd["rs3"])
		r2, r3 := expectedResponse(tag, rs2, rs3, pad, nil)
		resp := call.Response()
		e := writeArg(resp.Arg2Writer())(r2, 0)
		if e == nil {
			e = writeArg(resp.Arg3Writer())(r3, 0)
		}
		obs.RespErr = e
		a3, err := readArg(call.Arg3Reader())(0, 0)
		if err != nil {
			obs.ReadErr = err
			w.probe("handler.respfirst-read-error")
			return
		}
		w.probe("handler.respfirst-read-ok")
		checkArgs(a3)
		return
	}
	a3, err := readArg(call.Arg3Reader())(0, 0)
	if err != nil {
		obs.ReadErr = err
		h.reportReadError(call, tag, err)
		return
	}
	checkArgs(a3)
	delay, _ := strconv.ParseInt(cmd["delay"], 10, 64)
	if delay > 0 {
		t := time.NewTimer(time.Duration(delay))
		obs.Waiting = true
		obs.WaitFrom = simrt.Elapsed()
		st0 := simrt.Cur().Stalled()
		select {
		case <-t.C:
			if ctx.Err() != nil {
				// both were ready when the select ran (it picks at random): the context HAD ended
				obs.CtxDoneAt = simrt.Elapsed()
				obs.CtxErr = ctx.Err()
				obs.CtxDone = true
				break
			}
			obs.DelayEnd = simrt.Elapsed()
			obs.DelayDone = true
		case <-ctx.Done():
			t.Stop()
			obs.CtxDoneAt = simrt.Elapsed()
			obs.CtxErr = ctx.Err()
			obs.CtxDone = true
			obs.CtxDoneInWait = true
		}
		obs.WaitedUntil = simrt.Elapsed()
		obs.WaitOver = true
		obs.StallInWait = simrt.Cur().Stalled() - st0
	}
	cancelAt := func(k int) {
		if rec != nil && rec.Spec.CancelOnResponse == k && rec.cancelFn != nil {
			w.probe("handler.caller-cancelled-at-response")
			rec.cancelFn()
		}
	}
	resp := call.Response()
	if mode != "blackhole" {
		cancelAt(1)
	}
	if mode == "syserr" {
		cancelAt(2)
	}
	switch mode {
	case "blackhole":
		resp.Blackhole()
		h.watchCtx(ctx, obs)
		return
	case "syserr":
		code, _ := strconv.Atoi(cmd["code"])
		obs.RespErr = resp.SendSystemError(tchannel.NewSystemError(tchannel.SystemErrCode(code), "%s", cmd["msg"]))
		h.watchCtx(ctx, obs)
		return
	case "apperr":
		if err := resp.SetApplicationError(); err != nil {
			obs.RespErr = err
			return
		}
	}
	rs2, _ := strconv.Atoi(cmd["rs2"])
	rs3, _ := strconv.Atoi(cmd["rs3"])
	r2, r3 := expectedResponse(tag, rs2, rs3, pad, a3)
	wp := 0
	if mode == "chunky" {
		wp = 3
	}
	// what the library's own ErrorHandlerFunc and thrift server do when a handler comes
	// back with an error: report it as a system error (the library must not let a second
	// terminal frame out if the response already went, or failed, on the wire)
	reportWriteError := func(err error) {
		if fnv(tag)%2 == 0 {
			w.probe("handler.write-error-reported-as-system-error")
			resp.SendSystemError(err)
		}
	}
	if err := writeArg(resp.Arg2Writer())(r2, wp); err != nil {
		obs.RespErr = err
		reportWriteError(err)
		h.watchCtx(ctx, obs)
		return
	}
	if mode == "partialerr" {
		// response cut short by a single system error
		code, _ := strconv.Atoi(cmd["code"])
		wr, err := resp.Arg3Writer()
		if err == nil {
			if _, werr := wr.Write(r3[:len(r3)/2]); werr == nil {
				wr.Flush()
			}
		}
		obs.RespErr = resp.SendSystemError(tchannel.NewSystemError(tchannel.SystemErrCode(code), "%s", cmd["msg"]))
		if wr != nil && fnv(tag+"/close")%2 == 0 {
			// (a handler written with `defer w.Close()` closes its half-written argument after
			// it has given up on the response)
			w.probe("handler.closes-writer-after-system-error")
			wr.Close()
		}
		h.watchCtx(ctx, obs)
		return
	}
	cancelAt(2)
	if err := writeArg(resp.Arg3Writer())(r3, wp); err != nil {
		obs.RespErr = err
		reportWriteError(err)
	}
	cancelAt(3)
	h.watchCtx(ctx, obs)
}

// watchCtx records when the handler's context ends after the response is done
// (C14: a handler's context is cancelled when its response completes).
func (h *echoHandler) watchCtx(ctx context.Context, obs *HandlerObs) {
	if obs.CtxDone {
		return
	}
	select {
	case <-ctx.Done():
		obs.CtxDoneAt = simrt.Elapsed()
		obs.CtxErr = ctx.Err()
		obs.CtxDone = true
	default:
	}
}

// reportReadError: what the library's thrift and JSON servers do when reading
// the request fails - they cannot tell a malformed request from a failed call and
// answer with a bad-request system error. The exchange has usually been shut down
// already; the library must cope (no second shutdown, no frame after a terminal).
func (h *echoHandler) reportReadError(call *tchannel.InboundCall, tag string, err error) {
	if fnv(tag+"/readerr")%2 == 0 {
		h.w.probe("handler.read-error-answered-with-bad-request")
		call.Response().SendSystemError(tchannel.NewSystemError(tchannel.ErrCodeBadRequest, "cannot read request: %v", err))
	}
}
