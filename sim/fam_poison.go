package vsim

import (
	"fmt"
	"github.com/uber/tchannel-go/simrt"
	"time"

	"vsim/wire"
)

func init() { families["poison"] = famPoison }

// famPoison: a peer makes a connection fail at the protocol level WHILE calls
// are in flight on it, and then keeps sending well-formed frames for those
// very calls. The library stops the connection's exchanges (their error
// channels are notified) but the socket is still read until the error frame
// has been written out, so frames for stopped-but-still-registered exchanges
// keep arriving. Who owns such a frame (the reader goroutine that received it
// or the consumer it was queued for) is the point. The two protocol errors a
// conforming-looking peer can provoke: a call request re-using the id of an
// active inbound call, and a ping on a connection that is closing. Serves C12,
// C11 and C03 (a peer can do this to any process).
func famPoison(w *World) {
	w.Grid = time.Millisecond
	w.NoFault = false
	w.drawSchedule(true)
	w.linkDefaults()
	scenario := scn(4)
	w.describe("poison scenario=%d", scenario)
	switch scenario {
	case 0:
		w.poisonInbound()
	case 3:
		w.poisonRelayCallee()
	default:
		w.poisonOutbound(scenario == 2)
	}
}

// pauses between the frames a raw peer sends, drawn per frame
func (w *World) drawGap() time.Duration {
	if scnChance(1, 2) {
		return 0
	}
	return time.Duration(scn(4)) * w.Grid
}

// poisonInbound: raw client -> real server. A multi-frame request is started,
// its id is re-used by a second call request (protocol error on the server),
// and the remaining fragments of the first request follow.
func (w *World) poisonInbound() {
	srv := w.addNode(NodeOpts{Name: "s0", Service: "svc0", Host: "10.0.2.1", Port: 5000, Conn: w.connOptsBig(), PoolReuse: scnChance(1, 2)})
	srv.Ch.Register(&echoHandler{w: w, n: srv}, "echo")
	cli := w.addNode(NodeOpts{Name: "c0", Service: "client0", Host: "10.0.3.1", Conn: w.connOptsBig()})
	var fs []func()
	nraw := 1 + scn(2)
	for i := 0; i < nraw; i++ {
		rp := w.newRawPeer(fmt.Sprintf("raw%d", i), fmt.Sprintf("10.0.9.%d", i+1))
		ncalls := 1 + scn(3)
		type plan struct {
			frames [][]byte
			dupAt  int // the duplicate call request goes out before frame #dupAt (>=1)
			gaps   []time.Duration
		}
		var plans []plan
		for k := 0; k < ncalls; k++ {
			spec, _, _ := rawEchoRequest(w, srv.Service, fmt.Sprintf("p%d.%d", i, k), scn(300), 500+scn(40000), []byte{wire.CsumNone, wire.CsumCRC32, wire.CsumCRC32C}[scn(3)], uint32(200+scn(3000)))
			spec.Type = wire.TCallReq
			spec.ID = uint32(10 + k)
			spec.MaxFrame = 200 + scn(3000)
			frs := wire.EncCall(spec)
			if len(frs) > 40 {
				spec.MaxFrame = 4000 + scn(8000)
				frs = wire.EncCall(spec)
			}
			p := plan{frames: frs, dupAt: -1}
			if len(frs) > 1 && k == ncalls-1 || (len(frs) > 1 && scnChance(1, 3)) {
				p.dupAt = 1 + scn(len(frs)-1)
			}
			for range frs {
				p.gaps = append(p.gaps, w.drawGap())
			}
			plans = append(plans, p)
		}
		interleave := scnChance(1, 2)
		fs = append(fs, func() {
			c, err := rp.Dial(srv.HostPort)
			if err != nil || c.Handshake() != nil {
				return
			}
			send := func(p plan, from, to int) bool {
				for j := from; j < to; j++ {
					if j == p.dupAt {
						w.event("poison", "%s re-uses id %d of its active request (frame %d of %d follows)", rp.Name, wire.FrameID(p.frames[0]), j, len(p.frames))
						w.Net.Fired["peer.duplicate-id"]++
						if c.Send(p.frames[0]) != nil {
							return false
						}
					}
					if c.Send(p.frames[j]) != nil {
						return false
					}
					if p.gaps[j] > 0 {
						sleep(p.gaps[j])
					}
				}
				return true
			}
			if interleave {
				// first fragment of every call, then the rest call by call
				for _, p := range plans {
					if !send(p, 0, 1) {
						return
					}
				}
				for _, p := range plans {
					if !send(p, 1, len(p.frames)) {
						break
					}
				}
			} else {
				for _, p := range plans {
					if !send(p, 0, len(p.frames)) {
						break
					}
				}
			}
			w.probe("ops.done")
			for k := 0; k < 40; k++ {
				if _, err := c.ReadFrame(100 * time.Millisecond); err != nil {
					break
				}
			}
			c.c.Close()
		})
	}
	// legitimate traffic on its own connection meanwhile
	fs = append(fs, func() {
		for k := 0; k < 1+scn(3); k++ {
			r := w.newCall(CallSpec{From: cli, To: srv.HostPort, Service: srv.Service, Via: "direct", Timeout: 5 * time.Second, Pad2: scn(500), Len3: scn(80000), Rs2: -1, Rs3: -1})
			w.Call(r)
			if r.Err != nil && r.StallIn == 0 { // (an injected scheduling stall may eat the call's time budget)
				w.violate("C03", "legit-call-fails-after-hostile-input", "a legitimate call on another connection failed while a peer provoked protocol errors: %s", errStr(r.Err))
			}
			sleep(time.Duration(scn(10)) * w.Grid)
		}
	})
	w.tasks(fs...)
	for _, rp := range w.RawPeers {
		rp.CloseAll()
	}
	w.quiesce(10*time.Second, true)
}

// poisonOutbound: real client -> raw server. The server starts a multi-frame
// response, provokes a protocol error on the client's connection (duplicate
// inbound call request id, or - when the client is closing - a ping), and
// then sends the rest of the response.
func (w *World) poisonOutbound(closing bool) {
	x := w.addNode(NodeOpts{Name: "x0", Service: "clientx", Host: "10.0.3.9", Conn: w.connOptsBig(), PoolReuse: scnChance(1, 2)})
	rs := w.newRawPeer("rawsrv", "10.0.8.1")
	maxFrame := 200 + scn(3000)
	poisonAfter := scn(6) // response frames sent before the poison
	usePing := closing
	hp := rs.Listen(6000, func(c *RawConn) {
		if err := c.ServerHandshake("10.0.8.1:6000"); err != nil {
			return
		}
		poisoned := false
		reqTag := map[uint32]string{}
		for {
			f, err := c.ReadFrame(20 * time.Second)
			if err != nil {
				return
			}
			if f.Type == wire.TCallReq {
				reqTag[f.ID] = tagOfFrame(f)
			}
			if (f.Type != wire.TCallReq && f.Type != wire.TCallReqCont) || f.More() {
				continue
			}
			rec := w.callTag[reqTag[f.ID]]
			if rec == nil {
				continue
			}
			if rec.Spec.Delay > 0 {
				sleep(rec.Spec.Delay)
			}
			frs := wire.EncCall(wire.CallSpec{Type: wire.TCallRes, ID: f.ID, CsumType: []byte{wire.CsumNone, wire.CsumCRC32, wire.CsumCRC32C}[scn(3)],
				Args: [3][]byte{nil, rec.wantRes2, rec.wantRes3}, MaxFrame: maxFrame})
			for j, fr := range frs {
				if j == poisonAfter && !poisoned && j < len(frs) {
					poisoned = true
					if usePing {
						w.event("poison", "rawsrv pings the (closing) client connection before response frame %d of %d", j, len(frs))
						w.Net.Fired["peer.ping-on-closing"]++
						if c.Send(wire.EncPing(wire.TPingReq, 9000)) != nil {
							return
						}
					} else {
						w.event("poison", "rawsrv sends two call requests with one id before response frame %d of %d", j, len(frs))
						w.Net.Fired["peer.duplicate-id"]++
						req := wire.EncCall(wire.CallSpec{Type: wire.TCallReq, ID: 9000, TTL: 1000, Service: "clientx", Headers: []wire.KV{{K: "cn", V: "rawsrv"}, {K: "as", V: "raw"}},
							CsumType: wire.CsumNone, Args: [3][]byte{[]byte("echo"), []byte("x"), payload("dup", 3, 400)}, MaxFrame: 150})
						if c.Send(req[0]) != nil || c.Send(req[0]) != nil {
							return
						}
					}
					if g := w.drawGap(); g > 0 {
						sleep(g)
					}
				}
				if c.Send(fr) != nil {
					return
				}
				if scnChance(1, 4) {
					sleep(time.Duration(scn(3)) * w.Grid)
				}
			}
		}
	})
	var fs []func()
	ncalls := 1 + scn(3)
	maxTimeout := time.Duration(0)
	for k := 0; k < ncalls; k++ {
		s := CallSpec{From: x, To: hp, Service: "x", Via: "to-raw-server", Timeout: time.Duration(100+scn(900)) * w.Grid, Pad2: scn(300), Len3: scn(3000),
			Rs2: scn(2000), Rs3: 500 + scn(30000), ReadPat: scnPick(0, 0, 2)}
		if scnChance(1, 2) {
			s.Delay = time.Duration(scn(20)) * w.Grid // the raw server's "handler latency"
		}
		if scnChance(1, 3) {
			s.ChunkPause = time.Duration(1+scn(5)) * w.Grid
		}
		if s.Timeout > maxTimeout {
			maxTimeout = s.Timeout
		}
		r := w.newCall(s)
		start := time.Duration(scn(5)) * w.Grid
		w.describe("call %s timeout=%v rs=%d/%d rp=%d chunkPause=%v delay=%v start=%v", r.Spec.Tag, s.Timeout, s.Rs2, s.Rs3, s.ReadPat, s.ChunkPause, s.Delay, start)
		fs = append(fs, func() { sleep(start); w.Call(r) })
	}
	if closing {
		closeAt := time.Duration(1+scn(15)) * w.Grid
		fs = append(fs, func() { sleep(closeAt); x.Close() })
	}
	w.tasks(fs...)
	for _, rp := range w.RawPeers {
		rp.CloseAll()
	}
	w.quiesce(maxTimeout+10*time.Second, true)
}

// poisonRelayCallee: real clients call through a real relay to a raw callee
// that keeps sending UNSOLICITED terminal frames (error frames, final call
// responses) for the message ids the relay is about to use on that connection -
// ids are sequential, hence predictable - so that they race with the relay's
// own set-up of the calls they name. A legitimate server is reachable through
// the same relay throughout.
func (w *World) poisonRelayCallee() {
	srv := w.addNode(NodeOpts{Name: "s0", Service: "svc0", Host: "10.0.2.1", Port: 5000, Conn: w.connOptsBig()})
	srv.Ch.Register(&echoHandler{w: w, n: srv}, "echo")
	spy := &SpyRelayHost{w: w, name: "r0"}
	rn := w.addNode(NodeOpts{Name: "r0", Service: "relay", Host: "10.0.1.1", Port: 4500, Conn: w.connOptsBig(), Relay: spy, RelayMaxTombs: uint64(scn(3))})
	spy.Add(srv.Service, srv.HostPort)
	rs := w.newRawPeer("rawsrv", "10.0.8.1")
	flood := 4 + scn(40)
	gapUs := []int{0, 0, 20, 100, 500}[scn(5)]
	answer := scnChance(1, 2)
	hp := rs.Listen(6000, func(c *RawConn) {
		if c.ServerHandshake("10.0.8.1:6000") != nil {
			return
		}
		w.Net.Fired["peer.unsolicited-terminal"]++
		simrt.Go("h/unsolicited", func() {
			for i := 0; i < flood; i++ {
				id := uint32(1 + scn(8))
				var b []byte
				if scnChance(1, 2) {
					b = wire.EncError(id, []byte{1, 3, 5, 7}[scn(4)], wire.Span{}, "unsolicited")
				} else {
					b = wire.EncCall(wire.CallSpec{Type: wire.TCallRes, ID: id, CsumType: wire.CsumNone, Args: [3][]byte{nil, []byte("r;x\n"), []byte("y")}})[0]
				}
				if c.Send(b) != nil {
					return
				}
				if gapUs > 0 {
					sleep(time.Duration(gapUs) * time.Microsecond)
				}
			}
		})
		reqTag := map[uint32]string{}
		for {
			f, err := c.ReadFrame(20 * time.Second)
			if err != nil {
				return
			}
			if f.Type == wire.TCallReq {
				reqTag[f.ID] = tagOfFrame(f)
			}
			if !answer || (f.Type != wire.TCallReq && f.Type != wire.TCallReqCont) || f.More() {
				continue
			}
			if rec := w.callTag[reqTag[f.ID]]; rec != nil {
				for _, fr := range wire.EncCall(wire.CallSpec{Type: wire.TCallRes, ID: f.ID, CsumType: wire.CsumCRC32, Args: [3][]byte{nil, rec.wantRes2, rec.wantRes3}}) {
					if c.Send(fr) != nil {
						return
					}
				}
			}
		}
	})
	spy.Add("x", hp)
	var fs []func()
	nc := 1 + scn(3)
	for ci := 0; ci < nc; ci++ {
		cli := w.addNode(NodeOpts{Name: fmt.Sprintf("c%d", ci), Service: fmt.Sprintf("client%d", ci), Host: fmt.Sprintf("10.0.3.%d", ci+1), Conn: w.connOptsBig()})
		ncalls := 1 + scn(4)
		var recs []*CallRec
		for k := 0; k < ncalls; k++ {
			s := CallSpec{From: cli, To: rn.HostPort, Service: "x", Via: "relay x1", Timeout: time.Duration(20+scn(300)) * w.Grid, Pad2: scn(300), Len3: scn(3000), Rs2: scn(500), Rs3: scn(3000), NoCheck: true}
			if scnChance(1, 3) {
				s.Service, s.NoCheck, s.Rs2, s.Rs3 = srv.Service, false, -1, -1 // the legitimate server, through the same relay
				s.Timeout = 5 * time.Second                                     // (no deadline pressure on these: they must simply work)
			}
			recs = append(recs, w.newCall(s))
		}
		gap := time.Duration(scn(3)) * w.Grid
		fs = append(fs, func() {
			for _, r := range recs {
				w.Call(r)
				if r.Err != nil && r.Spec.Service == srv.Service && r.StallIn == 0 {
					w.violate("C03", "legit-call-fails-after-hostile-input", "a call to the legitimate server through the relay failed while a hostile callee on another connection sent unsolicited frames: %s", errStr(r.Err))
				}
				if gap > 0 {
					sleep(gap)
				}
			}
		})
	}
	w.tasks(fs...)
	w.QuiesceStarted = true
	w.stopLags()
	w.settle(35 * time.Second) // every ttl and the relay's tombstone period
	spy.checkEnded()
	w.checkQuiescent()
	for _, rp := range w.RawPeers {
		rp.CloseAll()
	}
	w.quiesce(5*time.Second, true)
}
