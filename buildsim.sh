#!/bin/bash
# buildsim.sh <out-binary> [race]
# Builds the simulation test binary from /repo's CURRENT WORKING TREE:
#   copy (no .git, no tests) -> add simrt + tagged export file -> vinstr -> go1.26.8 test -c
# Nothing is written under /repo. The scratch tree is removed afterwards.
# Exit 2 on any infrastructure trouble.
set -u
OUT="$1"; RACE="${2:-}"
V=/verif
REPO="${VERIF_REPO:-/repo}"
export GOFLAGS=-mod=mod GOPROXY=off GOSUMDB=off GOTOOLCHAIN=local CGO_ENABLED=0
[ "$RACE" = race ] && export CGO_ENABLED=1
GO=go1.26.8
export PATH="$($GO env GOROOT)/bin:$PATH"
S="${VERIF_SCRATCH:-/var/tmp/verif.$$}"
rm -rf "$S"; mkdir -p "$S/lib" "$S/h" || exit 2
trap 'rm -rf "$S"' EXIT
fail() { echo "buildsim: $*" >&2; exit 2; }

rsync -a --exclude .git --exclude '*_test.go' --exclude /benchmark --exclude /crossdock --exclude /examples \
  --exclude /hyperbahn --exclude /scripts --exclude /guide --exclude /testutils --exclude /pprof --exclude /stats \
  --exclude /peers --exclude /trace --exclude /thrift/thrift-gen --exclude /thrift/mocks --exclude '*.md' \
  "$REPO"/ "$S/lib/" || fail "copy"
mkdir -p "$S/lib/simrt" && cp $V/simrt/*.go "$S/lib/simrt/" || fail "simrt"
cp $V/sim/export_verif.go.txt "$S/lib/export_verif.go" || fail "export"
rsync -a --exclude '*.txt' $V/sim/ "$S/h/" || fail "harness copy"
cat > "$S/h/go.mod" <<EOF
module vsim

go 1.26.8

require github.com/uber/tchannel-go v0.0.0

replace github.com/uber/tchannel-go => $S/lib
EOF
cp "$REPO/go.sum" "$S/h/go.sum"

[ -x $V/bin/vinstr ] || fail "vinstr not built (run setup.sh)"
LIBPKGS=". ./typed ./tnet ./trand ./relay ./raw ./json ./http ./thrift ./thrift/arg2 ./internal/argreader"
( cd "$S/lib" && $V/bin/vinstr -q -dir "$S/lib" $LIBPKGS ) || fail "vinstr(lib) refused"
( cd "$S/h" && $GO mod tidy >/dev/null 2>&1; $V/bin/vinstr -q -dir "$S/h" -prefix h/ ./... ) || fail "vinstr(harness) refused"

GR=$($GO env GOROOT)
cat > "$S/overlay.json" <<EOF
{"Replace": {"$GR/src/runtime/select.go": "$V/overlay/runtime/select.go", "$GR/src/runtime/simhook.go": "$V/overlay/runtime/simhook.go"}}
EOF
FLAGS="-tags verif -overlay $S/overlay.json"
if [ "$RACE" = cover ]; then
  # coverage build (./covreport.sh): statement counters for the library packages only
  # (a test binary cannot dump its counters before os.Exit; an ordinary binary that
  # drives the same TestSim through testing.Main can)
  cp "$S/h/main_test.go" "$S/h/main_cov.go" && rm "$S/h/main_test.go" || fail "cover main"
  mkdir -p "$S/h/cmd/covmain"
  cat > "$S/h/cmd/covmain/main.go" <<EOF2
package main

import (
	"testing"

	"vsim"
)

func main() {
	testing.Main(func(pat, str string) (bool, error) { return true, nil },
		[]testing.InternalTest{{Name: "TestSim", F: vsim.TestSim}}, nil, nil)
}
EOF2
  ( cd "$S/h" && CGO_ENABLED=0 $GO build $FLAGS -cover -covermode=atomic -coverpkg=vsim/cmd/covmain,github.com/uber/tchannel-go,github.com/uber/tchannel-go/typed,github.com/uber/tchannel-go/relay,github.com/uber/tchannel-go/raw,github.com/uber/tchannel-go/json,github.com/uber/tchannel-go/thrift,github.com/uber/tchannel-go/thrift/arg2,github.com/uber/tchannel-go/internal/argreader -o "$OUT" ./cmd/covmain ) || fail "go build -cover"
  if [ -n "${VERIF_COVER_SRC:-}" ]; then rm -rf "$VERIF_COVER_SRC"; cp -r "$S/lib" "$VERIF_COVER_SRC"; fi
elif [ -n "$RACE" ]; then
  # race build: simrt and the harness are NOT instrumented (their shared state is
  # serialised by the scheduler, whose hand-offs are hidden from the detector)
  ( cd "$S/h" && $GO test -c $FLAGS -race -gcflags='vsim=-race=false' -gcflags='vsim/...=-race=false' -gcflags='github.com/uber/tchannel-go/simrt=-race=false' -o "$OUT" . ) || fail "go test -c -race"
else
  ( cd "$S/h" && $GO test -c $FLAGS -o "$OUT" . ) || fail "go test -c"
fi
if [ -n "${VERIF_KEEP_SCRATCH:-}" ]; then trap - EXIT; echo "scratch kept at $S" >&2; fi
exit 0
