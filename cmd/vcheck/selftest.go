package main

import (
	"fmt"
	"sort"
	"strconv"
	"sync"
)

// selftestDeterminism runs n seeds per family three times each, in separate
// processes at GOMAXPROCS 1, 4 and 16, and compares event hashes, schedule
// fingerprints, step counts and full decision vectors.
func selftestDeterminism(args []string) int {
	n := 40
	if len(args) > 0 {
		n, _ = strconv.Atoi(args[0])
	}
	bin := buildBinary(false)
	fams := map[string]bool{}
	for _, p := range props() {
		for _, f := range p.Families {
			fams[f.Name] = true // enumeration families run with a case drawn from the seed
		}
	}
	if len(args) > 1 {
		fams = map[string]bool{args[1]: true}
	}
	var names []string
	for f := range fams {
		names = append(names, f)
	}
	sort.Strings(names)
	seed := seedFromEnv()
	bad := 0
	total := 0
	var mu sync.Mutex
	for _, fam := range names {
		fbad := 0
		parallel(n, 16, func(i int) {
			sp := RunSpec{Family: fam, Prop: "C11", Seed: splitmix(seed^strHash(fam)) + uint64(i), Case: -1, Record: true}
			var rs [3]*RunResult
			for k, g := range []string{"1", "4", "16"} {
				rs[k] = runSpecEnv(bin, sp, 10*i+k, g)
			}
			mu.Lock()
			defer mu.Unlock()
			total++
			for k := 1; k < 3; k++ {
				if rs[k].EventHash != rs[0].EventHash || rs[k].FP != rs[0].FP || rs[k].Steps != rs[0].Steps || !sameRec(rs[k].Records, rs[0].Records) || rs[0].crashed || rs[0].hang {
					fbad++
					fmt.Printf("MISMATCH family=%s seed=%d: run0 %s/%s/%d crashed=%v run%d %s/%s/%d\n", fam, sp.Seed, rs[0].EventHash, rs[0].FP, rs[0].Steps, rs[0].crashed, k, rs[k].EventHash, rs[k].FP, rs[k].Steps)
					break
				}
			}
		})
		fmt.Printf("determinism: family %-10s %d seeds x 3 processes (GOMAXPROCS 1/4/16): %d mismatches\n", fam, n, fbad)
		bad += fbad
	}
	if bad > 0 {
		fmt.Printf("determinism self-test FAILED: %d of %d\n", bad, total)
		return 2
	}
	fmt.Printf("determinism self-test passed: %d seeds, 3 processes each\n", total)
	return 0
}

func sameRec(a, b map[string][]uint32) bool {
	if len(a) != len(b) {
		return false
	}
	for k, v := range a {
		w := b[k]
		if len(v) != len(w) {
			return false
		}
		for i := range v {
			if v[i] != w[i] {
				return false
			}
		}
	}
	return true
}

// selftestRace: the -race build must report the one unsynchronised probe and
// none of the synchronised ones (mutex, rwmutex, channel, waitgroup, once,
// pool, timer), under several schedules each.
func selftestRace() int {
	rbin := buildBinary(true)
	bad := 0
	names := []string{"no synchronisation", "mutex", "rwmutex (writers)", "rwmutex (reader, writer)", "channel", "waitgroup", "once", "pool", "timer callback"}
	for k := 0; k < len(names); k++ {
		reported, runs := 0, 24
		var mu sync.Mutex
		sample := ""
		parallel(runs, 8, func(i int) {
			r := runSpec(rbin, RunSpec{Family: "raceprobe", Prop: "C04", Seed: splitmix(uint64(1000*k + i)), Case: k, Race: true}, 6_000_000+100*k+i)
			n := 0
			for _, rr := range parseRaces(r.stderr) {
				if rr.lib {
					n++
					mu.Lock()
					if sample == "" {
						sample = rr.key
					}
					mu.Unlock()
				}
			}
			mu.Lock()
			if n > 0 {
				reported++
			}
			if r.crashed || r.hang {
				fmt.Printf("selftest race: probe %d seed %d did not complete\n%s\n", k, i, firstLines(r.stderr, 20))
				bad++
			}
			mu.Unlock()
		})
		want := "none"
		ok := reported == 0
		if k == 0 {
			want = "every run"
			ok = reported == runs
		}
		st := "ok"
		if !ok {
			st = "FAIL"
			bad++
		}
		fmt.Printf("selftest race: probe %d (%-24s): reported in %2d of %d runs, want %s: %s %s\n", k, names[k], reported, runs, want, st, sample)
	}
	if bad > 0 {
		fmt.Println("race self-test FAILED")
		return 2
	}
	fmt.Println("race self-test passed")
	return 0
}
