#!/bin/bash
# seedcheck.sh <id> <check-ids...>
# re-runs the given checks against /repo with /verif/seeded/<id>/patch.diff applied (undone straight afterwards)
# and rewrites /verif/seeded/<id>/checks.txt. Used after a check was strengthened.
ID="$1"; shift; CHECKS="$@"
OUT=/verif/seeded/$ID
P=$OUT/patch.diff; [ -f $OUT/patch.rebased.diff ] && P=$OUT/patch.rebased.diff  # same change re-made on the current tree after a later fix touched the same lines
if [ -n "${SEED_WT:-}" ]; then
  # a long check of the unchanged tree is running elsewhere: use a scratch worktree instead of /repo
  CW=/var/tmp/spc.$$; git -C /repo worktree add -q $CW HEAD || exit 2
  ( cd $CW && git apply $P ) || { echo "cannot apply"; git -C /repo worktree remove --force $CW; exit 2; }
  export VERIF_REPO=$CW
  trap 'git -C /repo worktree remove --force $CW' EXIT
  echo "# checks run against a scratch worktree of /repo $(git -C /repo rev-parse --short HEAD) with the patch applied (VERIF_REPO), machinery $(git -C /verif rev-parse --short HEAD)" > $OUT/checks.txt
else
[ -z "$(git -C /repo status --short)" ] || { echo "/repo not clean"; exit 2; }
git -C /repo apply $P || { echo "cannot apply to /repo"; exit 2; }
trap 'git -C /repo checkout -- .' EXIT
echo "# checks run with the patch applied to /repo $(git -C /repo rev-parse --short HEAD), machinery $(git -C /verif rev-parse --short HEAD)" > $OUT/checks.txt
fi
for c in $CHECKS; do
  r=$(/verif/check $c quick 2>&1); rc=$?
  echo "== $c quick rc=$rc" >> $OUT/checks.txt; echo "$r" | grep "by rule\|^VIOLATION\|^  rule\|quick:" | cut -c1-300 >> $OUT/checks.txt
  if [ $rc -eq 0 ]; then
    r=$(/verif/check $c quick -runs 12000 -nomin 2>&1); rc=$?
    echo "== $c 12000 runs rc=$rc" >> $OUT/checks.txt; echo "$r" | grep "by rule\|^VIOLATION\|^  rule\|quick:" | cut -c1-300 >> $OUT/checks.txt
  fi
done
cat $OUT/checks.txt
