package vsim

import (
	"fmt"
	"time"
)

func init() { families["dial"] = famDial }

// famDial: several callers with different deadlines go to the same peer while
// its connection cannot be established promptly: the dial hangs, is refused,
// is slow, or the handshake reply is stalled. Connect time counts against each
// caller's own deadline (C05).
func famDial(w *World) {
	w.Grid = []time.Duration{time.Millisecond, 100 * time.Microsecond, 10 * time.Millisecond}[scn(3)]
	w.NoFault = false
	w.drawSchedule(true)
	w.linkDefaults()
	srv := w.addNode(NodeOpts{Name: "s0", Service: "svc0", Host: "10.0.2.1", Port: 5000, Conn: w.connOpts()})
	srv.Ch.Register(&echoHandler{w: w, n: srv}, "echo")
	cli := w.addNode(NodeOpts{Name: "c0", Service: "client0", Host: "10.0.3.1", Conn: w.connOpts()})
	mode := scn(6)
	if mode >= 4 {
		// a slow dial AND a held-back handshake reply on the same attempt: each is within the
		// deadline alone, together they are not - unless connect time is charged to the caller
		w.Net.DialFault[srv.HostPort] = &DialFault{Kind: 3, Delay: time.Duration(1+scn(200)) * w.Grid, Count: 1 + scn(2)}
	}
	switch mode {
	case 0:
		w.Net.DialFault[srv.HostPort] = &DialFault{Kind: 2, Count: 1 + scn(2)} // hang until the dialler's context ends
	case 1:
		w.Net.DialFault[srv.HostPort] = &DialFault{Kind: 3, Delay: time.Duration(1+scn(200)) * w.Grid, Count: 1 + scn(2)}
	case 2:
		w.Net.DialFault[srv.HostPort] = &DialFault{Kind: 1, Count: 1 + scn(3)}
	case 3, 4, 5:
		// the dial succeeds but the handshake reply is held back
		dur := time.Duration(1+scn(300)) * w.Grid
		if scnChance(1, 4) {
			dur = 0 // forever
		}
		off := int64(scn(60))
		armed := false
		w.linkHook = func(l *Link) {
			if !armed {
				armed = true
				l.AddFault(1, &Fault{Kind: FStall, Off: off, Dur: dur, Desc: "handshake reply"})
			}
		}
	}
	w.describe("dial mode=%d", mode)
	n := 2 + scn(4)
	var fs []func()
	maxTimeout := time.Duration(0)
	for i := 0; i < n; i++ {
		s := CallSpec{From: cli, To: srv.HostPort, Service: srv.Service, Via: "direct",
			Timeout: time.Duration(1+scn(100)) * []time.Duration{w.Grid, 10 * w.Grid}[scn(2)], Pad2: scn(3000), Len3: drawSize(100000), Rs2: -1, Rs3: -1}
		if s.Timeout < 2*time.Millisecond {
			s.Timeout = 2 * time.Millisecond
		}
		if s.Timeout > maxTimeout {
			maxTimeout = s.Timeout
		}
		r := w.newCall(s)
		start := time.Duration(scn(3)) * w.Grid
		w.describe("call %s timeout=%v start=%v a3=%d", r.Spec.Tag, s.Timeout, start, s.Len3)
		fs = append(fs, func() {
			if start > 0 {
				sleep(start)
			}
			w.Call(r)
		})
	}
	w.tasks(fs...)
	w.quiesce(maxTimeout+6*time.Second, true)
}

var _ = fmt.Sprintf
