module vcheck

go 1.23
