package vsim

import (
	"context"
	"fmt"
	"strings"
	"time"

	opentracing "github.com/opentracing/opentracing-go"
	tchannel "github.com/uber/tchannel-go"
	"vsim/wire"
)

func init() { families["codec6"] = famCodec6 }

type c6Obs struct {
	entered                         bool
	service, caller, method, format string
	shard, rk, rd                   string
	remaining                       time.Duration
	span                            wire.Span
	arg2, arg3                      []byte
	readErr                         error
}

type c6Handler struct {
	w   *World
	obs map[string]*c6Obs // by method name (unique per request)
}

func (h *c6Handler) Handle(ctx context.Context, call *tchannel.InboundCall) {
	o := &c6Obs{entered: true}
	h.obs[call.MethodString()] = o
	o.service, o.caller, o.method, o.format = call.ServiceName(), call.CallerName(), call.MethodString(), call.Format().String()
	o.shard, o.rk, o.rd = call.ShardKey(), call.RoutingKey(), call.RoutingDelegate()
	if dl, ok := ctx.Deadline(); ok {
		o.remaining = time.Until(dl)
	}
	sp := tchannel.CurrentSpan(ctx)
	o.span = wire.Span{SpanID: sp.SpanID(), ParentID: sp.ParentID(), TraceID: sp.TraceID(), Flags: sp.Flags()}
	var err error
	if o.arg2, err = readArg(call.Arg2Reader())(0, 0); err != nil {
		o.readErr = err
		return
	}
	if o.arg3, err = readArg(call.Arg3Reader())(0, 0); err != nil {
		o.readErr = err
		return
	}
	resp := call.Response()
	if strings.HasPrefix(o.method, "apperr") {
		resp.SetApplicationError()
	}
	writeArg(resp.Arg2Writer())(respond(o.arg2), 0)
	writeArg(resp.Arg3Writer())(respond(o.arg3), 0)
}

func str(n int, seed string) string { return longMsg(seed, n) }

// famCodec6: the independent codec as raw peer on both sides of a real
// channel, with field values drawn at their boundaries, plus the encode-time
// limits through the public API. The encode direction of C06 is judged by the
// tap in every family; this family adds the decode direction, span/ttl field
// agreement with a deterministic tracer, init/ping/cancel frames, truncated
// streams and over-limit values.
func famCodec6(w *World) {
	w.Grid = time.Millisecond
	w.NoFault = true
	w.drawSchedule(false)
	w.linkDefaults()
	h := &c6Handler{w: w, obs: map[string]*c6Obs{}}
	stracer := newSimTracer("s0", 1)
	// frames are reused without clearing (like a real pool): a decoder that looks past the
	// declared frame size finds the bytes of an earlier message there
	srv := w.addNode(NodeOpts{Name: "s0", Service: "svc0", Host: "10.0.2.1", Port: 5000, Conn: w.connOptsBig(), Handler: h, Tracer: stracer, PoolReuse: true})
	sub := scn(5)
	w.describe("codec6 sub-scenario=%d", sub)
	switch sub {
	case 0: // decode direction, server side: raw client sends call requests with boundary field values
		rp := w.newRawPeer("raw0", "10.0.9.1")
		rc, err := rp.Dial(srv.HostPort)
		if err != nil || rc.Handshake() != nil {
			w.violate("C06", "handshake", "conforming handshake failed")
			return
		}
		n := 1 + scn(6)
		for i := 0; i < n; i++ {
			method := fmt.Sprintf("m%d", i)
			if scnChance(1, 5) {
				method = fmt.Sprintf("apperr%d", i)
			}
			ttl := []uint32{1, 2, 999, 1000, 1001, 60000, 0x7fffffff, 0xffffffff, uint32(1 + scn(100000))}[scn(9)]
			span := wire.Span{SpanID: uint64(scn(1<<30))<<32 | uint64(scn(1<<30)), ParentID: uint64(scn(1 << 30)), TraceID: 1 + uint64(scn(1<<30))<<33, Flags: byte(scn(256))}
			if scnChance(1, 4) {
				span = wire.Span{SpanID: ^uint64(0), ParentID: ^uint64(0) >> 1, TraceID: 1 << 63, Flags: 0xff}
			}
			hdrs := []wire.KV{{K: "cn", V: str([]int{1, 2, 255, 17}[scn(4)], "cn"+method)}, {K: "as", V: []string{"raw", "json", "thrift", "http", "x", ""}[scn(6)]}}
			if scnChance(1, 6) {
				hdrs = hdrs[:1] // no arg scheme header at all (a non-Go client may omit it)
				w.probe("C06.request-without-arg-scheme")
			}
			if scnChance(1, 2) {
				hdrs = append(hdrs, wire.KV{K: "sk", V: str([]int{0, 1, 255, 9}[scn(4)], "sk"+method)})
			}
			if scnChance(1, 3) {
				hdrs = append(hdrs, wire.KV{K: "rk", V: str(1+scn(40), "rk")}, wire.KV{K: "rd", V: str(1+scn(40), "rd")})
			}
			extra := []int{0, 0, 1, 10, 100, 250}[scn(6)] // unknown transport headers up to the 255 limit
			for k := 0; k < extra && len(hdrs) < 255; k++ {
				hdrs = append(hdrs, wire.KV{K: fmt.Sprintf("x%d", k), V: str(scn(20), "xv")})
			}
			service := srv.Service
			a2 := payload(method, 2, []int{0, 1, 100, 70000}[scn(4)])
			a3 := payload(method, 3, drawSize(150000))
			spec := wire.CallSpec{Type: wire.TCallReq, ID: []uint32{uint32(i + 1), 0x7fffffff - uint32(i), 0xfffffffe - uint32(i), 1000 + uint32(i)}[scn(4)], TTL: ttl, Span: span, Service: service, Headers: hdrs,
				CsumType: []byte{wire.CsumNone, wire.CsumCRC32, wire.CsumCRC32C}[scn(3)], Args: [3][]byte{[]byte(method), a2, a3}}
			if scnChance(1, 3) {
				spec.MaxFrame = 9000 + scn(56000) // above the largest possible header block (255 headers)
			}
			if scnChance(1, 3) {
				// reserved bits of the flags byte set on every fragment: to be ignored
				spec.ReservedFlags = []byte{0x02, 0x80, 0xfe}[scn(3)]
				w.probe("C06.reserved-flag-bits-set")
			}
			t0 := time.Now()
			res := rc.Call(spec, 10*time.Second)
			w.probe("ops.done")
			w.eval("C06.decode-call-req")
			o := h.obs[method]
			desc := fmt.Sprintf("raw call %s ttl=%d headers=%d a2=%d a3=%d id=%#x", method, ttl, len(hdrs), len(a2), len(a3), spec.ID)
			if o == nil || !o.entered {
				w.violate("C06", "valid-request-not-dispatched", "%s: the handler was never entered (%v, error code %d %q)", desc, res.Err, res.ErrCode, res.ErrMsg)
				continue
			}
			want := map[string]string{}
			for _, kv := range hdrs {
				want[kv.K] = kv.V
			}
			if o.service != service || o.method != method || o.caller != want["cn"] || o.format != want["as"] || o.shard != want["sk"] || o.rk != want["rk"] || o.rd != want["rd"] {
				w.violate("C06", "decoded-fields-differ", "%s: handler saw service=%q method=%q caller=%q format=%q shard=%q rk=%q rd=%q; sent %q %q %q %q %q %q %q", desc,
					o.service, o.method, trunc(o.caller, 20), o.format, trunc(o.shard, 20), o.rk, o.rd, service, method, trunc(want["cn"], 20), want["as"], trunc(want["sk"], 20), want["rk"], want["rd"])
			}
			if o.readErr != nil {
				// e.g. a 1 ms ttl that ran out while the arguments were in flight: nothing more to compare
				w.probe("C06.request-expired-while-reading")
				continue
			}
			if string(o.arg2) != string(a2) || string(o.arg3) != string(a3) {
				w.violate("C06", "decoded-args-differ", "%s: arg2 %s arg3 %s", desc, diffDesc(o.arg2, a2), diffDesc(o.arg3, a3))
			}
			if o.span != span {
				w.violate("C06", "decoded-span-differs", "%s: handler's span %+v, sent %+v", desc, o.span, span)
			}
			ttlD := time.Duration(ttl) * time.Millisecond
			if o.remaining > ttlD || o.remaining < ttlD-time.Since(t0)-w.Grid {
				w.violate("C06", "decoded-ttl-differs", "%s: handler context had %v remaining, ttl sent %v", desc, o.remaining, ttlD)
			}
			if res.ErrCode == wire.ErrTimeout || (res.Err != nil && ttl < 50) {
				w.probe("C06.request-expired-before-response")
			} else if res.Err != nil || res.ErrCode >= 0 {
				w.violate("C06", "response-undecodable", "%s: response could not be decoded independently: %v code=%d %q", desc, res.Err, res.ErrCode, res.ErrMsg)
			} else {
				wantCode := byte(0)
				if strings.HasPrefix(method, "apperr") {
					wantCode = 1
				}
				if string(res.Args[1]) != string(respond(a2)) || string(res.Args[2]) != string(respond(a3)) || res.ResCode != wantCode || len(res.Args[0]) != 0 {
					w.violate("C06", "response-fields-differ", "%s: response arg2 %s arg3 %s code=%d want %d", desc, diffDesc(res.Args[1], respond(a2)), diffDesc(res.Args[2], respond(a3)), res.ResCode, wantCode)
				}
			}
		}
		// ping and cancel frames
		pid := uint32(0x77)
		rc.Send(wire.EncPing(wire.TPingReq, pid))
		w.eval("C06.ping")
		if f, err := rc.ReadFrame(2 * time.Second); err != nil || f.Type != wire.TPingRes || f.ID != pid || len(f.Raw) != wire.HeaderSize {
			w.violate("C06", "ping-response", "ping req id %#x answered with %v (%v), want a 16-byte ping res with the same id", pid, f, err)
		}
		rc.c.Close()
	case 1: // decode direction, client side: a real client against a conforming raw server with drawn response fields
		ctracer := newSimTracer("c0", 2)
		cli := w.addNode(NodeOpts{Name: "c0", Service: "client0", Host: "10.0.3.1", Conn: w.connOptsBig(), Tracer: ctracer})
		rs := w.newRawPeer("rawsrv", "10.0.8.1")
		type plan struct {
			code     byte
			errCode  int
			msg      string
			a2, a3   []byte
			hdrs     []wire.KV
			maxFrame int
			csum     byte
			resFlags byte
		}
		plans := map[string]*plan{}
		var seen []*wire.Frame
		hp := rs.Listen(6000, func(c *RawConn) {
			if c.ServerHandshake("10.0.8.1:6000") != nil {
				return
			}
			re := map[uint32]*wire.Reassembler{}
			first := map[uint32]*wire.Frame{}
			for {
				f, err := c.ReadFrame(30 * time.Second)
				if err != nil {
					return
				}
				if f.Type == wire.TPingReq {
					c.Send(wire.EncPing(wire.TPingRes, f.ID))
					continue
				}
				if !f.IsCall() {
					seen = append(seen, f)
					continue
				}
				if f.Type == wire.TCallReq {
					re[f.ID] = wire.NewReassembler()
					first[f.ID] = f
					seen = append(seen, f)
				}
				r := re[f.ID]
				if r == nil {
					continue
				}
				r.Add(f)
				if !r.Done {
					continue
				}
				p := plans[string(r.Args[0])]
				if p == nil {
					continue
				}
				if p.errCode >= 0 {
					c.Send(wire.EncError(f.ID, byte(p.errCode), first[f.ID].Span, p.msg))
					continue
				}
				for _, b := range wire.EncCall(wire.CallSpec{Type: wire.TCallRes, ID: f.ID, ResCode: p.code, Span: first[f.ID].Span, Headers: p.hdrs, CsumType: p.csum, MaxFrame: p.maxFrame, ReservedFlags: p.resFlags, Args: [3][]byte{nil, p.a2, p.a3}}) {
					c.Send(b)
				}
			}
		})
		n := 1 + scn(6)
		for i := 0; i < n; i++ {
			method := fmt.Sprintf("m%d", i)
			p := &plan{errCode: -1, csum: []byte{wire.CsumNone, wire.CsumCRC32, wire.CsumCRC32C}[scn(3)], hdrs: []wire.KV{{K: "as", V: []string{"raw", "json", "thrift"}[scn(3)]}}}
			switch scn(3) {
			case 0:
				p.errCode = scn(255) // 0xff closes the connection (C20)
				p.msg = str([]int{0, 1, 255, 256, 65000, 65491}[scn(6)], method)
			case 1:
				p.code = 1
			}
			p.a2 = payload(method, 12, []int{0, 1, 300, 70000}[scn(4)])
			p.a3 = payload(method, 13, drawSize(150000))
			if scnChance(1, 3) {
				p.maxFrame = 200 + scn(60000)
			}
			if scnChance(1, 3) {
				p.resFlags = []byte{0x02, 0x80, 0xfe}[scn(3)]
			}
			plans[method] = p
			timeout := time.Duration(1000+scn(100000)) * time.Millisecond
			parent := ctracer.StartSpan("parent")
			pctx := opentracing.ContextWithSpan(context.Background(), parent)
			ctx, cancel := tchannel.NewContextBuilder(timeout).SetParentContext(pctx).Build()
			shard := str(scn(30), "sk")
			opts := &tchannel.CallOptions{Format: []tchannel.Format{tchannel.Raw, tchannel.JSON, tchannel.Thrift, tchannel.HTTP}[scn(4)], ShardKey: shard}
			a2, a3 := payload(method, 2, scn(3000)), payload(method, 3, drawSize(100000))
			nspans := len(ctracer.Spans)
			tIn := time.Now()
			call, err := cli.Ch.BeginCall(ctx, hp, "rawsvc", method, opts)
			var r2, r3 []byte
			var appErr bool
			if err == nil {
				err = writeArg(call.Arg2Writer())(a2, 0)
			}
			if err == nil {
				err = writeArg(call.Arg3Writer())(a3, 0)
			}
			if err == nil {
				r2, err = readArg(call.Response().Arg2Reader())(0, 0)
			}
			if err == nil {
				appErr = call.Response().ApplicationError()
				r3, err = readArg(call.Response().Arg3Reader())(0, 0)
			}
			cancel()
			w.probe("ops.done")
			w.eval("C06.decode-call-res")
			desc := fmt.Sprintf("call %s to a conforming raw server (plan: errCode=%d code=%d a2=%d a3=%d maxFrame=%d)", method, p.errCode, p.code, len(p.a2), len(p.a3), p.maxFrame)
			// what the client put on the wire, field by field (encode direction with known inputs)
			var req *wire.Frame
			for _, f := range seen {
				if f.Type == wire.TCallReq && len(f.Chunks) > 0 && string(f.Chunks[0]) == method {
					req = f
				}
			}
			if req == nil {
				w.violate("C06", "request-not-received", "%s: the independent codec did not receive a call req for it (err=%v)", desc, err)
				continue
			}
			w.eval("C06.encode-call-req-fields")
			hv := map[string]string{}
			for _, kv := range req.Headers {
				hv[kv.K] = kv.V
			}
			if req.Service != "rawsvc" || hv["cn"] != cli.Service || hv["as"] != opts.Format.String() || hv["sk"] != shard {
				w.violate("C06", "encoded-fields-differ", "%s: on the wire service=%q cn=%q as=%q sk=%q; asked for %q %q %q %q", desc, req.Service, hv["cn"], hv["as"], hv["sk"], "rawsvc", cli.Service, opts.Format.String(), shard)
			}
			lo, hi := uint32((timeout-time.Since(tIn))/time.Millisecond), uint32(timeout/time.Millisecond)
			if req.TTL > hi || req.TTL+1 < lo {
				w.violate("C06", "encoded-ttl-differs", "%s: ttl on the wire %d ms, remaining time at BeginCall was in [%d,%d] ms", desc, req.TTL, lo, hi)
			}
			if len(ctracer.Spans) > nspans {
				sp := ctracer.Spans[len(ctracer.Spans)-1]
				ws := wire.Span{SpanID: sp.Span, ParentID: sp.Parent, TraceID: sp.Trace, Flags: sp.Flags}
				if req.Span != ws {
					w.violate("C06", "encoded-span-differs", "%s: span on the wire %+v, the tracer assigned %+v", desc, req.Span, ws)
				}
			}
			if p.errCode >= 0 {
				se, ok := err.(tchannel.SystemError)
				if !ok || int(se.Code()) != p.errCode || se.Message() != p.msg {
					w.violate("C06", "decoded-error-differs", "%s: raw server sent error code %#x with a %d-byte message; caller got %s", desc, p.errCode, len(p.msg), errStr(err))
				}
				if p.errCode == 0xff {
					sleep(100 * time.Millisecond)
				}
				continue
			}
			if err != nil {
				w.violate("C06", "valid-response-rejected", "%s: %s", desc, errStr(err))
				continue
			}
			if string(r2) != string(p.a2) || string(r3) != string(p.a3) || appErr != (p.code == 1) {
				w.violate("C06", "decoded-response-differs", "%s: arg2 %s arg3 %s appErr=%v", desc, diffDesc(r2, p.a2), diffDesc(r3, p.a3), appErr)
			}
			if f := call.Response().Format().String(); f != p.hdrs[0].V {
				w.violate("C06", "decoded-response-differs", "%s: response format %q, sent as=%q", desc, f, p.hdrs[0].V)
			}
		}
		// ping through the API: a 16-byte ping req, answered
		pctx, pc := context.WithTimeout(context.Background(), 2*time.Second)
		w.eval("C06.ping")
		if err := cli.Ch.Ping(pctx, hp); err != nil {
			w.violate("C06", "ping", "Ping against a conforming raw server failed: %v", err)
		}
		pc()
	case 2: // every prefix of a valid encoding followed by EOF fails cleanly
		rp := w.newRawPeer("raw0", "10.0.9.1")
		spec, _, _ := rawEchoRequest(w, srv.Service, "pfx", 50, 300, wire.CsumCRC32, 2000)
		spec.Type, spec.ID, spec.Args[0] = wire.TCallReq, 5, []byte("mprefix")
		full := wire.EncCall(spec)[0]
		n := 1 + scn(4)
		for i := 0; i < n; i++ {
			rc, err := rp.Dial(srv.HostPort)
			if err != nil || rc.Handshake() != nil {
				w.violate("C06", "handshake", "conforming handshake failed")
				return
			}
			cut := scn(len(full))
			rc.Send(full[:cut])
			w.Net.Fired["net.halfclose"]++
			rc.c.Close()
			w.probe("ops.done")
			w.eval("C06.prefix-eof")
			sleep(20 * time.Millisecond)
			if o := h.obs["mprefix"]; o != nil && o.entered && o.readErr == nil && cut < len(full) {
				w.violate("C06", "truncated-frame-accepted", "a call req cut at %d of %d bytes followed by EOF was dispatched and read successfully", cut, len(full))
			}
		}
		// the server still works
		rc, err := rp.Dial(srv.HostPort)
		if err != nil || rc.Handshake() != nil {
			w.violate("C06", "handshake", "conforming handshake failed after truncated streams")
			return
		}
		spec.Args[0] = []byte("mfull")
		if res := rc.Call(spec, 3*time.Second); res.Err != nil || res.ErrCode >= 0 {
			w.violate("C06", "valid-request-rejected", "after truncated streams a complete request fails: %v %d", res.Err, res.ErrCode)
		}
		rc.c.Close()
	case 3: // values over a length limit are rejected at encode time, never truncated
		cli := w.addNode(NodeOpts{Name: "c0", Service: "client0", Host: "10.0.3.1", Conn: w.connOptsBig()})
		which := scn(4)
		service, method := srv.Service, "mlimit"
		opts := &tchannel.CallOptions{}
		switch which {
		case 0:
			service = str(256+scn(300), "svc")
		case 1:
			opts.ShardKey = str(256+scn(300), "sk")
		case 2:
			opts.RoutingKey = str(256+scn(10), "rk")
		case 3:
			method = str(16384+1+scn(50000), "m") // arg1 is limited to 16 KiB by the protocol
		}
		ctx, cancel := tchannel.NewContextBuilder(2 * time.Second).Build()
		call, err := cli.Ch.BeginCall(ctx, srv.HostPort, service, method, opts)
		if err == nil {
			err = writeArg(call.Arg2Writer())([]byte("x"), 0)
			if err == nil {
				err = writeArg(call.Arg3Writer())([]byte("y"), 0)
			}
			if err == nil {
				_, err = readArg(call.Response().Arg2Reader())(0, 0)
			}
		}
		cancel()
		w.probe("ops.done")
		w.eval("C06.over-limit")
		w.describe("over-limit field %d err=%v", which, errStr(err))
		// nothing carrying a shortened value may have reached the wire
		for _, l := range w.Net.Links {
			for _, tf := range l.Frames[0] {
				if tf.F == nil || tf.F.Type != wire.TCallReq || l.A.Owner != cli.Name {
					continue
				}
				if tf.Err != nil {
					continue // the tap already reports undecodable frames
				}
				hv := map[string]string{}
				for _, kv := range tf.F.Headers {
					hv[kv.K] = kv.V
				}
				bad := tf.F.Service != service || hv["sk"] != opts.ShardKey || hv["rk"] != opts.RoutingKey
				if len(tf.F.Chunks) > 0 && which == 3 && !strings.HasPrefix(method, string(tf.F.Chunks[0])) {
					bad = true
				}
				if bad {
					w.violate("C06", "over-limit-value-truncated", "field %d exceeds its length limit; a call req went out with service=%d bytes sk=%d bytes rk=%d bytes (asked: %d/%d/%d)", which, len(tf.F.Service), len(hv["sk"]), len(hv["rk"]), len(service), len(opts.ShardKey), len(opts.RoutingKey))
				}
			}
		}
		if err == nil {
			w.violate("C06", "over-limit-value-accepted", "a value over its protocol length limit (field %d) was accepted end to end", which)
		}
	}
	if sub == 4 {
		// well-framed SHORT messages: the header declares exactly the bytes sent, the message
		// needs more. Decoding must fail, not read on into whatever the frame buffer holds.
		rp := w.newRawPeer("raw0", "10.0.9.1")
		// a valid handshake first, so that the pooled frame holds a complete init req
		if rc, err := rp.Dial(srv.HostPort); err == nil && rc.Handshake() == nil {
			rc.c.Close()
		}
		sleep(10 * time.Millisecond)
		full := wire.EncInit(wire.TInitReq, 1, 2, stdInitParams("10.0.9.1:7000", "rawproc"))
		short, _ := hsCut(full, 3+scn(2))
		rc, err := rp.Dial(srv.HostPort)
		if err == nil {
			rc.Send(short)
			f, _ := rc.ReadFrame(8 * time.Second)
			w.probe("ops.done")
			w.eval("C06.short-frame")
			if f != nil && f.Type == wire.TInitRes {
				w.violate("C06", "short-frame-decoded", "an init req frame of %d bytes (header size %d; the full message is %d bytes) was accepted: the decoder read past the declared frame size", len(short), len(short), len(full))
			}
			rc.c.Close()
		}
		// the same towards a real client: a short init res
		cli := w.addNode(NodeOpts{Name: "c0", Service: "client0", Host: "10.0.3.1", Conn: w.connOptsBig(), PoolReuse: true})
		rs := w.newRawPeer("rawsrv", "10.0.8.1")
		cut := 3 + scn(2)
		hp := rs.Listen(6000, func(c *RawConn) {
			f, err := c.ReadFrame(5 * time.Second)
			if err != nil {
				return
			}
			b, _ := hsCut(wire.EncInit(wire.TInitRes, f.ID, 2, stdInitParams("10.0.8.1:6000", "rawproc")), cut)
			c.Send(b)
			c.ReadFrame(5 * time.Second)
		})
		ctx, cancel := context.WithTimeout(context.Background(), 2*time.Second)
		_, cerr := cli.Ch.Connect(ctx, hp)
		cancel()
		w.eval("C06.short-frame")
		if cerr == nil {
			w.violate("C06", "short-frame-decoded", "an init res frame cut to a well-framed short message (mode %d) was accepted by Connect: the decoder read past the declared frame size", cut)
		}
	}
	w.quiesce(5*time.Second, true)
}
