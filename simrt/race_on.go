//go:build race

package simrt

import (
	"runtime"
	"unsafe"
)

// Race build: the scheduler serialises all goroutines through channel hand-offs,
// which would order every pair of memory accesses for the race detector. The
// hand-offs (and all of simrt's own synchronisation) therefore run with race
// synchronisation events ignored, this package and the harness are compiled
// without race instrumentation, and the simulated sync primitives announce
// exactly the happens-before edges of the primitives they replace.
const RaceEnabled = true

func raceDisable()                      { runtime.RaceDisable() }
func raceEnable()                       { runtime.RaceEnable() }
func raceAcquire(p unsafe.Pointer)      { runtime.RaceAcquire(p) }
func raceRelease(p unsafe.Pointer)      { runtime.RaceRelease(p) }
func raceReleaseMerge(p unsafe.Pointer) { runtime.RaceReleaseMerge(p) }
