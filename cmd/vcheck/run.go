package main

import (
	"encoding/json"
	"flag"
	"fmt"
	"os"
	"path/filepath"
	"runtime"
	"sort"
	"strings"
	"sync"
	"time"
)

// famWeight: one family a property's check draws runs from.
type famWeight struct {
	Name   string
	Weight int
	Enum   bool // the family enumerates cases (Case index) instead of drawing
}

type propCfg struct {
	ID        string
	Level     string // exploration | fault_enumeration
	Families  []famWeight
	QuickRuns int
	ThorSecs  int
	Rule      string
	Race      bool // additionally run a -race build (C04)
}

var realStub = map[string]interface{}{
	"real":    []string{"every line of package tchannel and its sub-packages typed, tnet, trand, relay, raw, json, http, thrift, thrift/arg2, internal/argreader from /repo's current working tree (scheduling calls inserted by cmd/vinstr)", "context, Go channels and timers", "Go runtime (1-line select-order hook through -overlay)"},
	"stub":    []string{"network: simnet (sim/net.go) through ChannelOptions.Dialer and Channel.Serve(listener)", "clock: testing/synctest fake clock", "sync.Mutex/RWMutex/Cond/WaitGroup/Once/Pool: scheduler-aware equivalents (simrt)", "RNG seeds: drawn from the run's decision stream", "frame pool: ownership-tracking pool through ConnectionOptions.FramePool", "logger, stats reporter (null), tracer (noop)", "RelayHost, handlers: application code by definition"},
	"not_run": []string{"tos, sockio_*, localip, hyperbahn, crossdock, benchmark, real kernel sockets"},
}

func props() map[string]*propCfg {
	m := map[string]*propCfg{}
	add := func(p *propCfg) { m[p.ID] = p }
	add(&propCfg{ID: "C01", Level: "exploration", Families: []famWeight{{"frag", 1, false}}, QuickRuns: 4000, ThorSecs: 600})
	add(&propCfg{ID: "C02", Level: "exploration", Families: []famWeight{{"frag", 2, false}, {"relay", 1, false}}, QuickRuns: 4000, ThorSecs: 600})
	add(&propCfg{ID: "C03", Level: "exploration", Families: []famWeight{{"hostile", 3, false}, {"poison", 1, false}}, QuickRuns: 4000, ThorSecs: 600})
	add(&propCfg{ID: "C04", Level: "exploration", Families: []famWeight{{"mesh", 2, false}, {"relay", 2, false}, {"apiconc", 1, false}}, QuickRuns: 4000, ThorSecs: 600, Race: true})
	add(&propCfg{ID: "C05", Level: "exploration", Families: []famWeight{{"mesh", 2, false}, {"relay", 1, false}, {"dial", 1, false}, {"pressure", 1, false}}, QuickRuns: 4000, ThorSecs: 600})
	add(&propCfg{ID: "C06", Level: "exploration", Families: []famWeight{{"codec6", 2, false}, {"mesh", 1, false}, {"frag", 1, false}}, QuickRuns: 4000, ThorSecs: 600})
	add(&propCfg{ID: "C07", Level: "exploration", Families: []famWeight{{"close", 1, false}}, QuickRuns: 4000, ThorSecs: 600})
	add(&propCfg{ID: "C08", Level: "exploration", Families: []famWeight{{"relay", 4, false}, {"rawclient", 1, false}}, QuickRuns: 4000, ThorSecs: 600})
	add(&propCfg{ID: "C09", Level: "exploration", Families: []famWeight{{"relay", 3, false}, {"cancel", 1, false}}, QuickRuns: 4000, ThorSecs: 600})
	add(&propCfg{ID: "C10", Level: "exploration", Families: []famWeight{{"rawclient", 2, false}, {"relay", 1, false}}, QuickRuns: 6000, ThorSecs: 600})
	add(&propCfg{ID: "C11", Level: "exploration", Families: []famWeight{{"mesh", 1, false}, {"relay", 1, false}, {"hostile", 1, false}, {"close", 1, false}, {"pressure", 1, false}, {"poison", 1, false}, {"conns", 1, false}}, QuickRuns: 4000, ThorSecs: 600})
	add(&propCfg{ID: "C12", Level: "exploration", Families: []famWeight{{"mesh", 1, false}, {"relay", 1, false}, {"hostile", 1, false}, {"frag", 1, false}, {"pressure", 1, false}, {"poison", 1, false}}, QuickRuns: 4000, ThorSecs: 600})
	add(&propCfg{ID: "C13", Level: "fault_enumeration", Families: []famWeight{{"handshake", 1, true}}, QuickRuns: 0, ThorSecs: 0})
	add(&propCfg{ID: "C14", Level: "exploration", Families: []famWeight{{"mesh", 1, false}, {"relay", 1, false}, {"cancel", 2, false}, {"pressure", 1, false}}, QuickRuns: 4000, ThorSecs: 600})
	add(&propCfg{ID: "C15", Level: "exploration", Families: []famWeight{{"peers", 1, false}}, QuickRuns: 4000, ThorSecs: 600})
	add(&propCfg{ID: "C16", Level: "exploration", Families: []famWeight{{"conns", 1, false}}, QuickRuns: 4000, ThorSecs: 600})
	add(&propCfg{ID: "C17", Level: "fault_enumeration", Families: []famWeight{{"retry", 1, true}}, QuickRuns: 0, ThorSecs: 0})
	add(&propCfg{ID: "C18", Level: "exploration", Families: []famWeight{{"codec", 1, false}}, QuickRuns: 4000, ThorSecs: 600})
	add(&propCfg{ID: "C19", Level: "exploration", Families: []famWeight{{"timeline", 1, false}}, QuickRuns: 4000, ThorSecs: 600})
	add(&propCfg{ID: "C20", Level: "exploration", Families: []famWeight{{"errors", 2, false}, {"relay", 1, false}, {"close", 1, false}}, QuickRuns: 4000, ThorSecs: 600})
	return m
}

type agg struct {
	mu                                            sync.Mutex
	runs                                          int
	completed                                     int
	aborted                                       map[string]int
	crashed                                       int
	hangs                                         int
	simNs                                         int64
	steps                                         int64
	switches                                      int64
	goroutines                                    int64
	fired                                         map[string]int
	evals                                         map[string]int
	probes                                        map[string]int
	fps                                           map[string]bool
	nontrivial                                    map[string]bool
	sitePairs                                     map[uint64]bool
	classes                                       map[string]int
	famRuns                                       map[string]int
	samples                                       []map[string]interface{}
	ops                                           int64
	otherProps                                    map[string]int
	libPanics                                     int
	wallMsTotal                                   int64
	panicNotes                                    []string
	raceRuns, raceReports, raceNonLib, raceBroken int
}

func newAgg() *agg {
	return &agg{aborted: map[string]int{}, fired: map[string]int{}, evals: map[string]int{}, probes: map[string]int{}, fps: map[string]bool{},
		nontrivial: map[string]bool{}, sitePairs: map[uint64]bool{}, classes: map[string]int{}, famRuns: map[string]int{}, otherProps: map[string]int{}}
}

func (a *agg) add(r *RunResult, prop string) {
	a.mu.Lock()
	defer a.mu.Unlock()
	a.runs++
	a.famRuns[r.Family]++
	a.wallMsTotal += r.wallMs
	if r.crashed {
		a.crashed++
		return
	}
	if r.hang {
		a.hangs++
		return
	}
	if r.Aborted != "" {
		a.aborted[r.Aborted]++
		if len(r.Panics) > 0 {
			a.libPanics++
			if len(a.panicNotes) < 3 {
				pp := r.Panics[0]
				a.panicNotes = append(a.panicNotes, fmt.Sprintf("seed=%d family=%s goroutine=%s: %s\n%s", r.Seed, r.Family, pp.G, pp.Value, topLibFrames(pp.Stack, 8)+firstLines(pp.Stack, 14)))
			}
		}
	} else {
		a.completed++
	}
	a.simNs += r.SimNs
	a.steps += int64(r.Steps)
	a.switches += int64(r.Switches)
	a.goroutines += int64(r.Goroutines)
	a.ops += int64(r.OpsDone)
	a.classes[r.Class]++
	nf := 0
	for k, v := range r.Fired {
		a.fired[k] += v
		nf += v
	}
	for k, v := range r.Evals {
		a.evals[k] += v
	}
	for k, v := range r.Probes {
		a.probes[k] += v
	}
	for _, sp := range r.SitePairs {
		a.sitePairs[sp] = true
	}
	key := r.Family + ":" + r.FP
	a.fps[key] = true
	if r.OpsDone > 0 && nf > 0 && r.Aborted == "" {
		a.nontrivial[key] = true
	}
	for _, v := range r.Violations {
		if v.Prop != prop {
			a.otherProps[v.Prop+"/"+v.Rule]++
		}
	}
	if len(a.samples) < 4 && r.OpsDone > 0 && len(r.Sample) > 0 {
		s := r.Sample
		if len(s) > 14 {
			s = append(append([]string{}, s[:14]...), fmt.Sprintf("... (%d more lines)", len(r.Sample)-14))
		}
		a.samples = append(a.samples, map[string]interface{}{"family": r.Family, "seed": r.Seed, "case": r.Case, "class": r.Class, "scenario": s,
			"steps": r.Steps, "context_switches": r.Switches, "sim_s": float64(r.SimNs) / 1e9, "fired": r.Fired, "ops_done": r.OpsDone})
	}
}

// raceFamilies: the workloads of the race pass (every family with several library goroutines
// sharing state; C04's own come first).
var raceFamilies = []string{"mesh", "relay", "apiconc", "close", "cancel", "pressure", "conns", "poison", "hostile", "dial", "timeline"}

type found struct {
	v   Violation
	res *RunResult
	bin string // binary that produced it ("" = the plain one)
}

func cmdRun(args []string) int {
	fs := flag.NewFlagSet("run", flag.ExitOnError)
	prop := fs.String("prop", "", "property id")
	tier := fs.String("tier", "quick", "quick|thorough")
	runsFlag := fs.Int("runs", 0, "override number of runs")
	secsFlag := fs.Int("secs", 0, "override time budget (thorough)")
	famFlag := fs.String("family", "", "restrict to one family")
	noMin := fs.Bool("nomin", false, "skip minimisation")
	dumpAll := fs.Bool("dumpall", false, "print every violation found (debugging)")
	workers := fs.Int("workers", runtime.NumCPU(), "parallel runs")
	fs.Parse(args)
	if t := os.Getenv("VERIF_TIER"); t != "" && *tier == "" {
		*tier = t
	}
	pc := props()[*prop]
	if pc == nil {
		fatal2("unknown property %q", *prop)
	}
	seed := seedFromEnv()
	fmt.Printf("vcheck: property=%s tier=%s VERIF_SEED=%d\n", pc.ID, *tier, seed)
	t0 := time.Now()
	bin := buildBinary(false)
	findings := loadFindings()
	activeFindings = findings

	fams := pc.Families
	if *famFlag != "" {
		fams = []famWeight{{*famFlag, 1, false}}
		for _, f := range pc.Families {
			if f.Name == *famFlag {
				fams = []famWeight{f}
			}
		}
	}
	a := newAgg()
	raceTrouble := false
	var foundMu sync.Mutex
	var founds []found
	known := map[string]int{}
	handle := func(r *RunResult, idx int) {
		a.add(r, pc.ID)
		vs := violationsFor(pc.ID, r, bin, idx)
		foundMu.Lock()
		defer foundMu.Unlock()
		for _, v := range vs {
			if f := matchFinding(findings, v); f != nil {
				known[f.What]++
				continue
			}
			founds = append(founds, found{v, r, ""})
		}
	}

	enum := len(fams) == 1 && fams[0].Enum
	exhaustive := false
	if enum {
		// ask the binary how many cases there are
		probe := runSpec(bin, RunSpec{Family: fams[0].Name, Prop: pc.ID, Seed: seed, Case: -2}, 0)
		n := probe.Probes["enum.cases"]
		if n <= 0 {
			fatal2("family %s did not report its case count (%s)", fams[0].Name, firstLines(probe.stderr, 20))
		}
		total := n
		if *tier == "quick" && os.Getenv("VERIF_FULL_ENUM") == "" {
			// quick: every k-th case so that it stays within ~60 s; thorough: all
			if q := probe.Probes["enum.quick_stride"]; q > 1 {
				total = (n + q - 1) / q
				stride := q
				parallel(total, *workers, func(i int) {
					c := (i*stride + int(seed%uint64(stride))) % n
					handle(runSpec(bin, RunSpec{Family: fams[0].Name, Prop: pc.ID, Seed: splitmix(seed ^ uint64(c)), Case: c}, c), c)
				})
			} else {
				exhaustive = true
				parallel(n, *workers, func(i int) {
					handle(runSpec(bin, RunSpec{Family: fams[0].Name, Prop: pc.ID, Seed: splitmix(seed ^ uint64(i)), Case: i}, i), i)
				})
			}
		} else {
			exhaustive = true
			parallel(n, *workers, func(i int) {
				handle(runSpec(bin, RunSpec{Family: fams[0].Name, Prop: pc.ID, Seed: splitmix(seed ^ uint64(i)), Case: i}, i), i)
			})
		}
	} else {
		tw := 0
		for _, f := range fams {
			tw += f.Weight
		}
		pick := func(i int) string {
			x := int(splitmix(seed^uint64(i)*0x9e37) % uint64(tw))
			for _, f := range fams {
				if x < f.Weight {
					return f.Name
				}
				x -= f.Weight
			}
			return fams[0].Name
		}
		mk := func(i int) RunSpec {
			return RunSpec{Family: pick(i), Prop: pc.ID, Seed: splitmix(splitmix(seed^strHash(pc.ID)) + uint64(i)), Case: -1}
		}
		if *tier == "quick" {
			n := pc.QuickRuns
			if *runsFlag > 0 {
				n = *runsFlag
			}
			parallel(n, *workers, func(i int) { handle(runSpec(bin, mk(i), i), i) })
		} else {
			secs := pc.ThorSecs
			if *secsFlag > 0 {
				secs = *secsFlag
			}
			deadline := time.Now().Add(time.Duration(secs) * time.Second)
			batch := 0
			for time.Now().Before(deadline) {
				n := 64 * 16
				if *runsFlag > 0 {
					n = *runsFlag
				}
				base := batch * n
				parallel(n, *workers, func(i int) {
					if time.Now().After(deadline) {
						return
					}
					handle(runSpec(bin, mk(base+i), base+i), base+i)
				})
				batch++
				foundMu.Lock()
				nf := len(founds)
				foundMu.Unlock()
				if nf > 0 || *runsFlag > 0 {
					break
				}
			}
		}
	}

	// race pass (C04's data-race clause): the same workload under a -race build in which the
	// scheduler's hand-offs are invisible to the detector and the simulated sync primitives
	// announce the happens-before edges of the real ones
	if pc.Race && !enum && os.Getenv("VERIF_NO_RACE") == "" && (*famFlag == "" || os.Getenv("VERIF_RACE") != "") {
		rbin := buildBinary(true)
		seenKey := map[string]bool{}
		handleRace := func(r *RunResult, idx int) {
			foundMu.Lock()
			defer foundMu.Unlock()
			a.raceRuns++
			if r.crashed || r.hang {
				a.raceBroken++
				return
			}
			for _, rr := range parseRaces(r.stderr) {
				a.raceReports++
				if !rr.lib {
					a.raceNonLib++
					continue
				}
				if seenKey[rr.key] {
					continue
				}
				seenKey[rr.key] = true
				v := Violation{Prop: "C04", Rule: "data-race", Detail: rr.text}
				if f := matchFinding(findings, v); f != nil {
					known[f.What]++
					continue
				}
				founds = append(founds, found{v, r, rbin})
			}
		}
		mkR := func(i int) RunSpec {
			rf := raceFamilies
			if *famFlag != "" {
				rf = []string{*famFlag}
			}
			fam := rf[i%len(rf)]
			return RunSpec{Family: fam, Prop: pc.ID, Seed: splitmix(splitmix(seed^strHash(pc.ID+"/race")) + uint64(i)), Case: -1, Race: true}
		}
		if *tier == "quick" {
			n := 300
			if *runsFlag > 0 {
				n = *runsFlag / 10
			}
			parallel(n, *workers, func(i int) { handleRace(runSpec(rbin, mkR(i), 5_000_000+i), i) })
		} else {
			secs := pc.ThorSecs / 3
			if *secsFlag > 0 {
				secs = *secsFlag / 3
			}
			deadline := time.Now().Add(time.Duration(secs) * time.Second)
			for batch := 0; time.Now().Before(deadline); batch++ {
				base := batch * 256
				parallel(256, *workers, func(i int) {
					if time.Now().After(deadline) {
						return
					}
					handleRace(runSpec(rbin, mkR(base+i), 5_000_000+base+i), base+i)
				})
			}
		}
		fmt.Printf("vcheck: race pass: runs=%d reports=%d (not between two library accesses: %d) broken=%d\n", a.raceRuns, a.raceReports, a.raceNonLib, a.raceBroken)
		if a.raceRuns > 0 && a.raceBroken*5 > a.raceRuns {
			fmt.Fprintf(os.Stderr, "vcheck: %d of %d race-build runs did not complete\n", a.raceBroken, a.raceRuns)
			raceTrouble = true
		}
	}

	// determinism spot check on this very tree: a sample of this run's seeds is
	// re-executed in fresh processes with another GOMAXPROCS; event hashes must agree
	detN, detBad := 0, 0
	if !enum {
		detN = 6
		if *tier == "thorough" {
			detN = 30
		}
		var mu sync.Mutex
		parallel(detN, *workers, func(i int) {
			sp := RunSpec{Family: fams[i%len(fams)].Name, Prop: pc.ID, Seed: splitmix(splitmix(seed^strHash(pc.ID)) + uint64(i)), Case: -1}
			r1 := runSpecEnv(bin, sp, 2_000_000+2*i, "1")
			r2 := runSpecEnv(bin, sp, 2_000_000+2*i+1, "16")
			mu.Lock()
			if r1.EventHash != r2.EventHash || r1.FP != r2.FP || r1.Steps != r2.Steps {
				detBad++
				fmt.Fprintf(os.Stderr, "vcheck: NONDETERMINISM family=%s seed=%d: %s/%s/%d vs %s/%s/%d\n", sp.Family, sp.Seed, r1.EventHash, r1.FP, r1.Steps, r2.EventHash, r2.FP, r2.Steps)
			}
			mu.Unlock()
		})
	}

	// report
	exit := 0
	for _, k := range sortedKeysInt(known) {
		fmt.Printf("KNOWN-FINDING: property=%s %s (seen in %d runs)\n", pc.ID, k, known[k])
	}
	var replayPath string
	if len(founds) > 0 {
		rc := map[string]int{}
		for _, f := range founds {
			rc[f.v.Rule]++
		}
		fmt.Printf("vcheck: violations by rule: %v\n", rc)
		if *dumpAll {
			for _, f := range founds {
				fmt.Printf("DUMP seed=%d %s: %s\n", f.res.Seed, f.v.Rule, trunc(strings.ReplaceAll(f.v.Detail, "\n", " | "), 400))
			}
		}
		dc := map[string]int{}
		for _, f := range founds {
			if f.v.Rule == "panic" {
				l := strings.Split(f.v.Detail, "\n")
				k := l[0]
				if len(l) > 1 {
					k += " @" + strings.TrimSpace(l[1])
				}
				dc[trunc(k, 220)]++
			}
		}
		for _, k := range sortedKeysInt(dc) {
			fmt.Printf("vcheck:   %4d x %s\n", dc[k], k)
		}
		sort.Slice(founds, func(i, j int) bool {
			if founds[i].v.Rule != founds[j].v.Rule {
				return founds[i].v.Rule < founds[j].v.Rule
			}
			return founds[i].res.Steps < founds[j].res.Steps
		})
		seen := map[string]bool{}
		for _, f := range founds {
			if seen[f.v.Rule] {
				continue
			}
			seen[f.v.Rule] = true
			fbin := bin
			if f.bin != "" {
				fbin = f.bin
			}
			p, ok := reportViolation(fbin, pc.ID, f, *tier, *noMin || f.bin != "", *workers)
			if !ok {
				fmt.Fprintf(os.Stderr, "vcheck: violation %s/%s found with seed %d did not replay deterministically\n", pc.ID, f.v.Rule, f.res.Seed)
				exit = 2
				continue
			}
			if replayPath == "" {
				replayPath = p
			}
			fmt.Printf("VIOLATION property=%s replay=%s\n", pc.ID, p)
			fmt.Printf("  rule=%s seed=%d family=%s\n  %s\n", f.v.Rule, f.res.Seed, f.res.Family, strings.ReplaceAll(trunc(f.v.Detail, 1500), "\n", "\n  "))
			if exit == 0 {
				exit = 1
			}
		}
	}
	bad := a.crashed + a.hangs
	for _, v := range a.aborted {
		bad += v
	}
	if exit == 0 && a.runs > 0 && bad*5 > a.runs {
		fmt.Fprintf(os.Stderr, "vcheck: %d of %d runs did not complete (crashed=%d hangs=%d aborted=%v): refusing to claim a pass\n", bad, a.runs, a.crashed, a.hangs, a.aborted)
		exit = 2
	}
	if exit == 0 && raceTrouble {
		exit = 2
	}
	if exit == 0 && detBad > 0 {
		fmt.Fprintf(os.Stderr, "vcheck: determinism spot check failed for %d of %d seeds\n", detBad, detN)
		exit = 2
	}
	if exit == 0 && a.completed == 0 {
		fmt.Fprintf(os.Stderr, "vcheck: no run completed\n")
		exit = 2
	}
	for _, n := range a.panicNotes {
		fmt.Printf("vcheck: note: a run was aborted by a panic (not attributed to %s): %s\n", pc.ID, n)
	}
	wall := time.Since(t0).Seconds()
	writeEvidence(pc, *tier, seed, a, wall, len(founds), exhaustive, detN, detBad, known, fams)
	fmt.Printf("vcheck: %s %s: runs=%d completed=%d aborted=%v crashed=%d hangs=%d violations=%d known=%d wall=%.1fs sim=%.0fs distinct=%d\n",
		pc.ID, *tier, a.runs, a.completed, a.aborted, a.crashed, a.hangs, len(founds), len(known), wall, float64(a.simNs)/1e9, len(a.nontrivial))
	return exit
}

func sortedKeysInt(m map[string]int) []string {
	ks := make([]string, 0, len(m))
	for k := range m {
		ks = append(ks, k)
	}
	sort.Strings(ks)
	return ks
}

func trunc(s string, n int) string {
	if len(s) > n {
		return s[:n] + "..."
	}
	return s
}

func writeEvidence(pc *propCfg, tier string, seed uint64, a *agg, wall float64, nviol int, exhaustive bool, detN, detBad int, known map[string]int, fams []famWeight) {
	os.MkdirAll(filepath.Join(verifDir, "evidence"), 0755)
	samples := make([]interface{}, 0, len(a.samples))
	for _, s := range a.samples {
		samples = append(samples, s)
	}
	if len(samples) == 0 {
		samples = append(samples, map[string]interface{}{"note": "no run completed an operation"})
	}
	famNames := []string{}
	for _, f := range fams {
		famNames = append(famNames, f.Name)
	}
	hours := wall / 3600
	cov := map[string]interface{}{
		"evaluations":         a.runs,
		"distinct_nontrivial": len(a.nontrivial),
		"rule": "one evaluation = one simulated run (own OS process, own synctest bubble) of a scenario drawn from the run seed in families " + strings.Join(famNames, ",") +
			"; two runs are distinct when their schedule fingerprints differ (hash over the sequence of (goroutine identity, park site) at every context switch, per family); non-trivial = the run was not aborted, completed at least one operation and at least one fault or preemption actually fired",
		"samples":                              samples,
		"exhaustive":                           exhaustive,
		"runs_completed":                       a.completed,
		"runs_aborted":                         a.aborted,
		"runs_crashed":                         a.crashed,
		"runs_hung":                            a.hangs,
		"runs_per_hour":                        int(float64(a.runs) / hours),
		"simulated_time_s":                     float64(a.simNs) / 1e9,
		"simulated_s_per_hour":                 float64(a.simNs) / 1e9 / hours,
		"scheduling_points":                    a.steps,
		"context_switches":                     a.switches,
		"goroutines_started":                   a.goroutines,
		"operations_completed":                 a.ops,
		"distinct_schedule_fingerprints":       len(a.fps),
		"distinct_site_pair_switches":          len(a.sitePairs),
		"faults_fired":                         a.fired,
		"oracle_evaluations":                   a.evals,
		"probes":                               a.probes,
		"run_classes":                          a.classes,
		"runs_per_family":                      a.famRuns,
		"violations_of_other_properties_noted": a.otherProps,
		"known_findings_seen":                  known,
		"determinism_spot_check":               map[string]int{"seeds_rerun_at_other_GOMAXPROCS": detN, "mismatches": detBad},
		"components":                           realStub,
	}
	if pc.Race {
		cov["race_pass"] = map[string]interface{}{
			"runs_under_race_build":                    a.raceRuns,
			"runs_not_completed":                       a.raceBroken,
			"detector_reports":                         a.raceReports,
			"reports_not_between_two_library_accesses": a.raceNonLib,
			"how": "same families under a -race build: simrt and the harness are compiled without race instrumentation and the scheduler's hand-offs run with race synchronisation events ignored, so only the happens-before edges of the program itself remain (Go channels, atomics, context, timers natively; sync.Mutex/RWMutex/WaitGroup/Once/Pool replaced by simulated ones that announce the same edges; a socket write happens-before every later socket read, as in package syscall). Reports whose two accesses are not both made by library code are noise from the uninstrumented harness calling instrumented standard-library code and are counted, not judged. Self-test: ./check selftest race",
		}
	}
	ev := map[string]interface{}{
		"property_id": pc.ID,
		"tier":        tier,
		"seed":        int64(seed),
		"level":       pc.Level,
		"coverage":    cov,
		"wall_s":      wall,
		"violations":  nviol,
		"assumptions": []string{
			"sampling, not proof: the property held on the explored seeds only",
			"the instrumenter's rewrite rules are refinements of Go semantics (DESIGN.md 3.2)",
			"scheduling points are synchronisation operations; two plain memory accesses with no synchronisation between them are not reordered",
			"simnet models a reliable byte stream plus the listed faults, not kernel TCP behaviour",
		},
	}
	b, _ := json.MarshalIndent(ev, "", " ")
	if err := os.WriteFile(filepath.Join(verifDir, "evidence", pc.ID+".json"), b, 0644); err != nil {
		fatal2("evidence: %v", err)
	}
}
