package vsim

import (
	"context"
	"fmt"
	"strings"
	"time"

	tchannel "github.com/uber/tchannel-go"
)

func init() { families["peers"] = famPeers }

func hostOf(hp string) string { return hp[:strings.IndexByte(hp, ':')] }

// refTier is the documented default strategy, written from the statement:
// connected peers with inbound connections < other connected peers <
// unconnected peers; within a tier fewer pending calls first.
func refTier(p *tchannel.Peer) (tier int, pending int) {
	in, out := p.NumConnections()
	switch {
	case in+out == 0:
		return 2, 0
	case in == 0:
		return 1, p.NumPendingOutbound()
	}
	return 0, p.NumPendingOutbound()
}

// famPeers: model-based. Operations on the channel's shared list and on an
// isolated sub-channel list over peers on shared hosts, with real simulated
// connections (inbound and outbound) and parked calls changing scores; every
// selection is compared with a slice-based reference. Serves C15.
func famPeers(w *World) {
	w.Grid = time.Millisecond
	w.NoFault = true
	w.drawSchedule(false)
	w.linkDefaults()
	me := w.addNode(NodeOpts{Name: "c0", Service: "client0", Host: "10.0.3.1", Port: 3000, Conn: w.connOptsBig()})
	// servers: several ports on few hosts
	nh := 1 + scn(3)
	var servers []*Node
	for h := 0; h < nh; h++ {
		np := 1 + scn(4)
		for p := 0; p < np && len(servers) < 12; p++ {
			n := w.addNode(NodeOpts{Name: fmt.Sprintf("s%d_%d", h, p), Service: "svc", Host: fmt.Sprintf("10.0.2.%d", h+1), Port: 5000 + p, Conn: w.connOptsBig()})
			n.Ch.Register(&echoHandler{w: w, n: n}, "echo")
			servers = append(servers, n)
		}
	}
	lists := []*tchannel.PeerList{me.Ch.Peers(), me.Ch.GetSubChannel("iso", tchannel.Isolated).Peers()}
	model := []map[string]bool{{}, {}}
	custom := []bool{false, false} // list uses a custom (harness-supplied) strategy
	var customFn [2]func(p *tchannel.Peer) uint64
	w.describe("peers hosts=%d servers=%d", nh, len(servers))
	settle := func() { sleep(30 * time.Millisecond) }
	var parked []context.CancelFunc

	checkList := func(li int, what string) {
		l := lists[li]
		w.eval("C15.list-agrees")
		if l.Len() != len(model[li]) {
			w.violate("C15", "len-differs", "after %s: list %d Len()=%d, model has %d", what, li, l.Len(), len(model[li]))
		}
		cp := l.Copy()
		il := l.IntrospectList(nil)
		if len(cp) != len(model[li]) || len(il) != len(model[li]) {
			w.violate("C15", "copy-differs", "after %s: list %d Copy has %d, IntrospectList %d, model %d", what, li, len(cp), len(il), len(model[li]))
		}
		for _, hp := range sortedKeys(model[li]) {
			if cp[hp] == nil {
				w.violate("C15", "copy-differs", "after %s: list %d lacks %s", what, li, hp)
			}
		}
		// stored scores agree with the documented tiers (default strategy) at quiescent moments
		if !custom[li] {
			for i := 0; i < len(il); i++ {
				for j := 0; j < len(il); j++ {
					pi, pj := cp[il[i].HostPort], cp[il[j].HostPort]
					if pi == nil || pj == nil {
						continue
					}
					ti, ni := refTier(pi)
					tj, nj := refTier(pj)
					if li == 1 {
						// an isolated sub-channel's list is created with the least-pending strategy:
						// any connected peer before unconnected ones, fewer pending calls first
						if ti == 1 {
							ti = 0
						}
						if tj == 1 {
							tj = 0
						}
					}
					less := ti < tj || (ti == tj && ni < nj)
					if less && !(il[i].Score < il[j].Score) {
						w.violate("C15", "score-order", "after %s: list %d ranks %s (tier %d, %d pending, score %d) not before %s (tier %d, %d pending, score %d)", what, li, il[i].HostPort, ti, ni, il[i].Score, il[j].HostPort, tj, nj, il[j].Score)
					}
				}
			}
		} else {
			for _, e := range il {
				if p := cp[e.HostPort]; p != nil && e.Score != customFn[li](p) {
					w.violate("C15", "score-stale", "after %s: list %d stores score %d for %s, the strategy says %d", what, li, e.Score, e.HostPort, customFn[li](p))
				}
			}
		}
	}

	selectOne := func(li int, getNew bool, prev map[string]struct{}, what string) string {
		l := lists[li]
		scores := map[string]uint64{}
		for _, e := range l.IntrospectList(nil) {
			scores[e.HostPort] = e.Score
		}
		var p *tchannel.Peer
		var err error
		if getNew {
			p, err = l.GetNew(prev)
		} else {
			p, err = l.Get(prev)
		}
		w.eval("C15.selection")
		w.probe("ops.done")
		n := len(model[li])
		if n == 0 {
			if err != tchannel.ErrNoPeers || p != nil {
				w.violate("C15", "empty-list", "%s on an empty list returned %v, %v; want ErrNoPeers", what, p, err)
			}
			return ""
		}
		// eligibility per the statement
		var elig []string
		pass := 0
		for ; pass < 3 && len(elig) == 0; pass++ {
			for _, hp := range sortedKeys(model[li]) {
				_, hpPrev := prev[hp]
				_, hostPrev := prev[hostOf(hp)]
				switch pass {
				case 0:
					if !hpPrev && !hostPrev {
						elig = append(elig, hp)
					}
				case 1:
					if !hpPrev {
						elig = append(elig, hp)
					}
				case 2:
					if !getNew {
						elig = append(elig, hp)
					}
				}
			}
		}
		if len(elig) == 0 {
			if err != tchannel.ErrNoNewPeers || p != nil {
				w.violate("C15", "no-new-peers", "%s with every peer already selected returned %v, %v; want ErrNoNewPeers", what, p, err)
			}
			return ""
		}
		if err != nil || p == nil {
			if err == tchannel.ErrNoPeers {
				w.violate("C15", "no-peers-on-non-empty-list", "%s on a list of %d peers reported ErrNoPeers", what, n)
			} else {
				w.violate("C15", "selection-failed", "%s on a list of %d peers (eligible %v) returned %v, %v", what, n, elig, p, err)
			}
			return ""
		}
		hp := p.HostPort()
		ok := false
		min := ^uint64(0)
		for _, e := range elig {
			if e == hp {
				ok = true
			}
			if scores[e] < min {
				min = scores[e]
			}
		}
		if !ok {
			w.violate("C15", "ineligible-peer", "%s (prev=%v) returned %s although alternatives %v exist", what, sortedKeys(prev), hp, elig)
		} else if scores[hp] != min {
			w.violate("C15", "not-least-loaded", "%s returned %s with score %d; eligible peers %v include one with score %d", what, hp, scores[hp], elig, min)
		}
		return hp
	}

	nops := 5 + scn(40)
	for op := 0; op < nops; op++ {
		li := scn(2)
		s := servers[scn(len(servers))]
		switch k := scn(13); k {
		case 0, 1, 2:
			lists[li].Add(s.HostPort)
			model[li][s.HostPort] = true
			checkList(li, "Add "+s.HostPort)
		case 3:
			err := lists[li].Remove(s.HostPort)
			if model[li][s.HostPort] != (err == nil) {
				w.violate("C15", "remove", "Remove(%s) on list %d returned %v, model membership %v", s.HostPort, li, err, model[li][s.HostPort])
			}
			delete(model[li], s.HostPort)
			checkList(li, "Remove "+s.HostPort)
		case 4: // outbound connection
			ctx, cancel := context.WithTimeout(context.Background(), time.Second)
			me.Ch.Connect(ctx, s.HostPort)
			cancel()
			settle()
			checkList(0, "connect "+s.HostPort)
			checkList(1, "connect "+s.HostPort)
		case 5: // inbound connection: the server connects to us
			ctx, cancel := context.WithTimeout(context.Background(), time.Second)
			s.Ch.Connect(ctx, me.HostPort)
			cancel()
			settle()
			checkList(0, "inbound from "+s.HostPort)
			checkList(1, "inbound from "+s.HostPort)
		case 6: // park a call on that peer (raises its pending count)
			ctx, cancel := tchannel.NewContextBuilder(5 * time.Minute).Build()
			if call, err := me.Ch.BeginCall(ctx, s.HostPort, "svc", "echo", nil); err == nil {
				_ = call
				parked = append(parked, cancel)
			} else {
				cancel()
			}
			settle()
			checkList(0, "park call on "+s.HostPort)
			checkList(1, "park call on "+s.HostPort)
		case 7: // finish a parked call
			if len(parked) > 0 {
				parked[0]()
				parked = parked[1:]
				settle()
				checkList(li, "finish parked call")
			}
		case 8: // strategy change
			if scnChance(1, 2) {
				mod := uint64(1 + scn(4))
				f := func(p *tchannel.Peer) uint64 { return fnv(p.HostPort()) % mod }
				customFn[li] = f
				custom[li] = true
				lists[li].SetStrategy(tchannel.ScoreCalculatorFunc(f))
				checkList(li, "SetStrategy custom")
			}
		case 9: // Add racing with the peer's connection coming up (or a strategy change)
			how := scn(3)
			w.tasks(func() {
				lists[li].Add(s.HostPort)
			}, func() {
				ctx, cancel := context.WithTimeout(context.Background(), time.Second)
				switch how {
				case 0:
					me.Ch.Connect(ctx, s.HostPort)
				case 1:
					s.Ch.Connect(ctx, me.HostPort)
				default:
					if !custom[li] {
						me.Ch.Connect(ctx, s.HostPort)
					}
				}
				cancel()
			})
			model[li][s.HostPort] = true
			w.probe("C15.add-racing-with-connection")
			settle()
			checkList(0, "Add racing with a connection to "+s.HostPort)
			checkList(1, "Add racing with a connection to "+s.HostPort)
		case 10: // several goroutines Add the same host:port at once (and one may select meanwhile)
			na := 2 + scn(2)
			var fs []func()
			for i := 0; i < na; i++ {
				fs = append(fs, func() { lists[li].Add(s.HostPort) })
			}
			if scnChance(1, 2) {
				fs = append(fs, func() { lists[li].Get(nil) })
			}
			w.tasks(fs...)
			model[li][s.HostPort] = true
			w.probe("C15.concurrent-adds-of-one-peer")
			checkList(li, fmt.Sprintf("%d concurrent Adds of %s", na, s.HostPort))
			if scnChance(1, 2) {
				// ... and it can be removed again, completely
				if err := lists[li].Remove(s.HostPort); err != nil {
					w.violate("C15", "remove", "Remove(%s) after concurrent Adds on list %d returned %v", s.HostPort, li, err)
				}
				delete(model[li], s.HostPort)
				checkList(li, "Remove "+s.HostPort+" after concurrent Adds")
				selectOne(li, false, nil, fmt.Sprintf("list %d Get after Remove", li))
			}
		default: // selection
			prev := map[string]struct{}{}
			for _, hp := range sortedKeys(model[li]) {
				if scnChance(1, 3) {
					prev[hp] = struct{}{}
					prev[hostOf(hp)] = struct{}{}
				}
			}
			if scnChance(1, 4) {
				prev = nil
			}
			getNew := scnChance(1, 3)
			selectOne(li, getNew, prev, fmt.Sprintf("list %d GetNew=%v", li, getNew))
		}
	}
	// fairness: equal scores, no membership change -> every peer within any 3n selections
	for li := 0; li < 2; li++ {
		n := len(model[li])
		if n == 0 {
			continue
		}
		zero := func(p *tchannel.Peer) uint64 { return 7 }
		lists[li].SetStrategy(tchannel.ScoreCalculatorFunc(zero))
		customFn[li], custom[li] = zero, true
		total := 3*n + scn(4*n+1)
		var seq []string
		for i := 0; i < total; i++ {
			seq = append(seq, selectOne(li, false, nil, fmt.Sprintf("fairness list %d", li)))
		}
		w.eval("C15.fairness")
		for start := 0; start+3*n <= len(seq); start++ {
			seen := map[string]bool{}
			for _, hp := range seq[start : start+3*n] {
				seen[hp] = true
			}
			if len(seen) != n {
				var missing []string
				for _, hp := range sortedKeys(model[li]) {
					if !seen[hp] {
						missing = append(missing, hp)
					}
				}
				w.violate("C15", "starvation", "list %d, %d peers with equal scores: selections %d..%d (3n) never chose %v", li, n, start, start+3*n-1, missing)
				break
			}
		}
	}
	for _, c := range parked {
		c()
	}
	w.quiesce(2*time.Second, true)
}
