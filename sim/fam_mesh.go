package vsim

import (
	"fmt"
	"time"

	tchannel "github.com/uber/tchannel-go"
)

func init() { families["mesh"] = famMesh }

var checksumTypes = []tchannel.ChecksumType{tchannel.ChecksumTypeCrc32, tchannel.ChecksumTypeCrc32C, tchannel.ChecksumTypeNone, tchannel.ChecksumTypeFarmhash}

// sizes biased to interesting places: empty, tiny, around one frame, many frames.
func drawSize(max int) int {
	switch scn(8) {
	case 0:
		return 0
	case 1:
		return 1 + scn(16)
	case 2, 3:
		return scn(2000)
	case 4:
		return 60000 + scn(12000) // around the 64 KiB frame boundary
	case 5:
		n := 65000 + scn(140000)
		if scnChance(1, 4) {
			n = 200000 + scn(800000) // many frames: more than any send buffer holds
		}
		if n > max {
			n = max
		}
		return n
	default:
		return scn(20000)
	}
}

func (w *World) connOpts() tchannel.ConnectionOptions {
	co := tchannel.ConnectionOptions{ChecksumType: checksumTypes[scn(len(checksumTypes))]}
	if scnChance(1, 4) {
		co.SendBufferSize = 1 + scn(8) // buf.small
		w.Net.Fired["buf.small"]++
	}
	return co
}

// connOptsBig is connOpts without the tiny-send-buffer draw.
func (w *World) connOptsBig() tchannel.ConnectionOptions {
	return tchannel.ConnectionOptions{ChecksumType: checksumTypes[scn(len(checksumTypes))]}
}

// linkDefaults draws transport parameters for every new link.
func (w *World) linkDefaults() {
	latMode := scn(4)
	seg := scnChance(1, 2)
	// how many bytes a direction holds in flight before the writer blocks (socket buffers)
	capacity := []int{256 << 10, 256 << 10, 64 << 10, 16 << 10, 4 << 10}[scn(5)]
	w.Net.NewLinkHook = func(l *Link) {
		for d := 0; d < 2; d++ {
			switch latMode {
			case 1:
				l.SetLatency(d, w.Grid, 0)
			case 2:
				l.SetLatency(d, time.Duration(1+scn(5))*w.Grid, 2)
			case 3:
				l.SetLatency(d, 0, 1)
			}
			l.SetSegmented(d, seg)
			l.SetCapacity(d, capacity)
			if seg {
				w.Net.Fired["net.segment"]++
			}
			if latMode != 0 {
				w.Net.Fired["net.delay"]++
			}
		}
		if w.linkHook != nil {
			w.linkHook(l)
		}
	}
	w.describe("net latmode=%d segmented=%v capacity=%d", latMode, seg, capacity)
}

// famMesh: 2-4 nodes that all listen and call each other concurrently in both
// directions, with mixed sizes and handler latencies; optional transport
// faults, cancellations and Close calls. Serves C04, C05, C07, C11, C12, C14,
// C16, C20.
func famMesh(w *World) {
	w.Grid = []time.Duration{time.Millisecond, 100 * time.Microsecond, 10 * time.Millisecond}[scn(3)]
	faulty := scnChance(1, 2)
	w.NoFault = !faulty
	w.drawSchedule(true)
	w.linkDefaults()
	nn := 2 + scn(3)
	for i := 0; i < nn; i++ {
		o := NodeOpts{Name: fmt.Sprintf("n%d", i), Service: fmt.Sprintf("svc%d", i), Host: fmt.Sprintf("10.0.0.%d", i+1), Port: 4000 + i, Conn: w.connOpts(), PoolReuse: scnChance(1, 4)}
		n := w.addNode(o)
		n.Ch.Register(&echoHandler{w: w, n: n}, "echo")
	}
	w.describe("mesh nodes=%d faulty=%v", nn, faulty)

	maxTimeout := time.Duration(0)
	ntasks := 1 + scn(5)
	var fs []func()
	for t := 0; t < ntasks; t++ {
		from := w.Nodes[scn(nn)]
		ncalls := 1 + scn(4)
		var recs []*CallRec
		for c := 0; c < ncalls; c++ {
			to := w.Nodes[scn(nn)]
			if to == from {
				to = w.Nodes[(scn(nn-1)+1+indexOf(w.Nodes, from))%nn]
			}
			s := CallSpec{From: from, To: to.HostPort, Service: to.Service, Via: "direct",
				Timeout: time.Duration(1+scn(200)) * 10 * w.Grid, Pad2: drawSize(100000), Len3: drawSize(1000000), Rs2: -1, Rs3: -1,
				WritePat: scn(4), ReadPat: scnPick(0, 0, 2)}
			if scnChance(1, 3) {
				s.Rs2, s.Rs3 = drawSize(100000), drawSize(200000)
			}
			switch scn(10) {
			case 0:
				s.Mode = "apperr"
			case 1:
				s.Mode = "syserr"
				s.Code = []int{1, 2, 3, 4, 5, 6, 7, 8, 0xff, 0x40}[scn(10)]
				s.Msg = fmt.Sprintf("boom-%d", scn(1000))
			case 2:
				s.Mode = "chunky"
			default:
				s.Mode = "echo"
			}
			if scnChance(1, 2) {
				s.Delay = time.Duration(scn(30)) * w.Grid
			}
			if faulty && scnChance(1, 8) {
				s.Mode = "blackhole"
			}
			switch scn(12) {
			case 0: // the handler answers before it has read the whole request
				if s.Mode == "echo" {
					s.Mode = "respfirst"
					s.Rs2, s.Rs3 = scn(2000), drawSize(100000)
				}
			case 1, 2: // the handler dawdles between the arguments, perhaps past its deadline
				s.LateRead = time.Duration(1+scn(300)) * 10 * w.Grid
				if scnChance(1, 2) {
					s.LateRead = s.Timeout + time.Duration(scn(20)-5)*w.Grid
				}
				if s.LateRead <= 0 {
					s.LateRead = w.Grid
				}
			}
			if scnChance(1, 6) {
				// a caller that is slow to collect its (many-frame) response: busy between writing
				// the request and reading, or between pieces. The frames pile up in the call's
				// receive buffer; other calls on the same connection must not suffer
				if scnChance(1, 2) {
					s.ReadPause = time.Duration(1+scn(150)) * w.Grid
				} else {
					s.ChunkPause = time.Duration(1+scn(20)) * w.Grid
				}
				if s.Mode == "echo" {
					if scnChance(1, 2) {
						s.Mode = "chunky"
					}
					s.Rs2, s.Rs3 = scn(3000), 100000+drawSize(300000)
				}
				w.probe("mesh.busy-caller")
			}
			if faulty && scnChance(1, 6) {
				s.CancelAfter = time.Duration(scn(40)) * w.Grid
			}
			if s.Timeout > maxTimeout {
				maxTimeout = s.Timeout
			}
			r := w.newCall(s)
			recs = append(recs, r)
			w.describe("call %s %s->%s mode=%s timeout=%v a2=%d a3=%d rs=%d/%d wp=%d rp=%d delay=%v cancel=%v", r.Spec.Tag, from.Name, to.Name, s.Mode, s.Timeout, s.Pad2, s.Len3, s.Rs2, s.Rs3, s.WritePat, s.ReadPat, s.Delay, s.CancelAfter)
		}
		gap := time.Duration(scn(5)) * w.Grid
		fs = append(fs, func() {
			for _, r := range recs {
				w.Call(r)
				if gap > 0 {
					sleep(gap)
				}
			}
		})
	}
	if faulty {
		w.planLinkFaults(2)
	}
	w.tasks(fs...)
	w.quiesce(maxTimeout+time.Duration(50)*w.Grid+2*time.Second, true)
}

func indexOf(ns []*Node, n *Node) int {
	for i, x := range ns {
		if x == n {
			return i
		}
	}
	return -1
}

// planLinkFaults arms up to max transport faults on links as they are created.
func (w *World) planLinkFaults(max int) {
	budget := 1 + scn(max)
	kinds := []FaultKind{FCut, FCut, FStall, FStall, FHalfClose}
	prev := w.linkHook
	w.linkHook = func(l *Link) {
		if prev != nil {
			prev(l)
		}
		if w.QuiesceStarted {
			return // faults have stopped: links created from now on are left alone
		}
		if budget <= 0 || !scnChance(1, 2) {
			return
		}
		budget--
		f := &Fault{Kind: kinds[scn(len(kinds))]}
		// offsets biased into the byte span of traffic that will exist: the
		// handshake is ~100 bytes, calls follow
		switch scn(4) {
		case 0:
			f.Off = int64(scn(120))
		case 1:
			f.Off = int64(100 + scn(3000))
		case 2:
			f.Off = int64(60000 + scn(20000))
		default:
			f.Off = int64(scn(300000))
		}
		if f.Kind == FStall && scnChance(1, 2) {
			f.Dur = time.Duration(1+scn(100)) * w.Grid
		}
		dir := scn(2)
		f.Desc = fmt.Sprintf("planned at off %d dir %d dur %v", f.Off, dir, f.Dur)
		l.AddFault(dir, f)
		w.describe("fault %s link%d dir%d off=%d dur=%v", faultNames[f.Kind], l.ID, dir, f.Off, f.Dur)
	}
}
