package vsim

import (
	"fmt"
	"time"

	tchannel "github.com/uber/tchannel-go"
	"github.com/uber/tchannel-go/simrt"
	"vsim/wire"
)

func init() { families["cancel"] = famCancel }

// famCancel: deadlines from sub-millisecond to beyond the relay maximum and
// caller cancellation at drawn moments, for every combination of
// SendCancelOnContextCanceled (caller) and PropagateCancel (each hop), direct
// and through relays, with connection cuts while handlers run. Serves C14.
func famCancel(w *World) {
	w.Grid = []time.Duration{time.Millisecond, 100 * time.Microsecond, 10 * time.Millisecond}[scn(3)]
	w.NoFault = false
	w.drawSchedule(true)
	w.linkDefaults()
	hops := scn(3) // 0 = direct
	sendCancel := scnChance(1, 2)
	srvProp := scnChance(1, 2)
	relayProp := []bool{scnChance(2, 3), scnChance(2, 3)}
	maxTO := time.Duration(0)
	if hops > 0 && scnChance(1, 2) {
		maxTO = time.Duration(20+scn(200)) * w.Grid
		if maxTO < 2*time.Millisecond {
			maxTO = 2 * time.Millisecond
		}
	}
	srv := w.addNode(NodeOpts{Name: "s0", Service: "svc0", Host: "10.0.2.1", Port: 5000, Conn: tchannel.ConnectionOptions{PropagateCancel: srvProp, ChecksumType: checksumTypes[scn(4)]}})
	srv.Ch.Register(&echoHandler{w: w, n: srv}, "echo")
	target := srv.HostPort
	var relays []*Node
	var spies []*SpyRelayHost
	next := srv.HostPort
	for h := hops - 1; h >= 0; h-- {
		spy := &SpyRelayHost{w: w, name: fmt.Sprintf("r%d", h)}
		rn := w.addNode(NodeOpts{Name: spy.name, Service: "relay", Host: fmt.Sprintf("10.0.1.%d", h+1), Port: 4500 + h, Relay: spy, RelayMaxTimeout: maxTO,
			Conn: tchannel.ConnectionOptions{PropagateCancel: relayProp[h]}})
		spy.Add(srv.Service, next)
		next = rn.HostPort
		target = rn.HostPort
		relays = append([]*Node{rn}, relays...)
		spies = append(spies, spy)
	}
	cli := w.addNode(NodeOpts{Name: "c0", Service: "client0", Host: "10.0.3.1", Conn: tchannel.ConnectionOptions{SendCancelOnContextCanceled: sendCancel}})
	e2e := sendCancel && srvProp
	for h := 0; h < hops; h++ {
		e2e = e2e && relayProp[h]
	}
	w.describe("cancel hops=%d sendCancel=%v serverPropagate=%v relayPropagate=%v relayMax=%v end-to-end=%v", hops, sendCancel, srvProp, relayProp[:hops], maxTO, e2e)
	cut := scnChance(1, 4)
	cutAt := time.Duration(5+scn(40)) * w.Grid
	// how the handler's connection fails: reset, or the peer's socket simply going away (clean
	// end of stream); possibly while the server is already closing gracefully (its connections
	// then wait for the handlers still running)
	cutClean := scnChance(1, 2)
	closeFirst := scnChance(1, 3)
	var cutTime time.Duration

	n := 1 + scn(5)
	var fs []func()
	maxTimeout := time.Duration(0)
	var recs []*CallRec
	for i := 0; i < n; i++ {
		s := CallSpec{From: cli, To: target, Service: srv.Service, Via: fmt.Sprintf("relay x%d", hops), Pad2: scn(2000), Len3: drawSize(100000), Rs2: -1, Rs3: -1, WritePat: scnPick(0, 0, 3)}
		if hops == 0 {
			s.Via = "direct"
		}
		switch scn(6) {
		case 0: // sub-millisecond budget: must fail locally
			s.Timeout = time.Duration(1+scn(990)) * time.Microsecond
		case 1: // beyond the relay maximum
			s.Timeout = 3*time.Minute + time.Duration(scn(1000))*w.Grid
		default:
			s.Timeout = time.Duration(2+scn(300)) * w.Grid
			if s.Timeout < time.Millisecond {
				s.Timeout += time.Millisecond
			}
		}
		switch scn(3) {
		case 0:
			s.Delay = time.Duration(scn(60)) * w.Grid
		case 1:
			s.Delay = s.Timeout + time.Duration(scn(20)-5)*w.Grid // around its own deadline
			if s.Delay < 0 {
				s.Delay = 0
			}
			if s.Delay > 2*time.Minute {
				s.Delay = time.Duration(scn(100)) * w.Grid
			}
		}
		if scnChance(1, 2) {
			s.CancelAfter = time.Duration(1+scn(50)) * w.Grid
		}
		if scnChance(1, 3) {
			s.Rs2, s.Rs3 = scn(3000), drawSize(150000)
			s.Mode = "chunky"
		}
		// a caller that is busy (not parked inside the library) when its context is cancelled:
		// between writing the request and reading the response, or between two pieces of the response
		switch scn(5) {
		case 0:
			s.ReadPause = time.Duration(1+scn(60)) * w.Grid
		case 1:
			s.ChunkPause = time.Duration(1+scn(10)) * w.Grid
			if s.Rs3 < 0 {
				s.Rs2, s.Rs3 = scn(3000), 20000+scn(200000)
			}
		}
		if s.Timeout > maxTimeout && s.Timeout < time.Minute {
			maxTimeout = s.Timeout
		}
		r := w.newCall(s)
		recs = append(recs, r)
		start := time.Duration(scn(10)) * w.Grid
		w.describe("call %s timeout=%v delay=%v cancelAfter=%v mode=%s a3=%d start=%v", r.Spec.Tag, s.Timeout, s.Delay, s.CancelAfter, r.Spec.Mode, s.Len3, start)
		fs = append(fs, func() { sleep(start); w.Call(r) })
	}
	var cutEv int64
	if cut {
		fs = append(fs, func() {
			sleep(cutAt)
			if closeFirst {
				srv.Close()
				w.Net.Fired["app.close-before-cut"]++
			}
			// cut the last hop (the one the handler's connection is on)
			for _, l := range w.Net.Links {
				if l.B.Owner == srv.Name && l.CutEv == 0 && l.CloseEv[0] == 0 && l.CloseEv[1] == 0 {
					if cutClean {
						cutEv = w.event("fault", "net.peer-gone link%d (handler's connection: the peer's socket closes, clean end of stream)", l.ID)
						w.Net.Fired["net.peer-gone"]++
						l.A.Close()
					} else {
						cutEv = w.event("fault", "net.cut link%d (handler's connection)", l.ID)
						w.Net.Fired["net.cut"]++
						l.reset(w.Net, "planned cut")
					}
				}
			}
			cutTime = simrt.Elapsed()
		})
	}
	w.tasks(fs...)
	w.QuiesceStarted = true
	w.stopLags()
	sleep(maxTimeout + 30*time.Second) // let every handler finish its wait before judging what it saw
	w.checkRelayWire(&relayTopo{relays: relays})
	// ---- C14 oracles over the history ----
	for _, r := range recs {
		s := &r.Spec
		msgs := w.wireOr.reqByTag[s.Tag]
		if s.Timeout < time.Millisecond {
			w.eval("C14.sub-millisecond")
			// (a connection problem may end the call before the ttl is even computed; what must
			// not happen is that a call with no millisecond left goes through)
			if r.Err == nil {
				w.violate("C14", "sub-ms-not-timeout", "call %s with %v left succeeded, want a local timeout", s.Tag, s.Timeout)
			}
			if tchannel.GetSystemErrorCode(r.Err) != tchannel.ErrCodeTimeout {
				w.probe("C14.sub-ms-ended-otherwise")
			}
			if len(msgs) > 0 || r.H.Entered {
				w.violate("C14", "sub-ms-frame-sent", "call %s with %v left still put a request on the wire", s.Tag, s.Timeout)
			}
			continue
		}
		// handler's deadline <= ttl it received, counted from handler entry
		if r.H.Entered && len(msgs) > 0 {
			last := msgs[len(msgs)-1]
			for _, m := range msgs {
				if m.link.B.Owner == srv.Name || m.link.A.Owner == srv.Name {
					last = m
				}
			}
			ttl := time.Duration(last.first.F.TTL) * time.Millisecond
			w.eval("C14.handler-deadline")
			if !r.H.HasDeadline {
				w.violate("C14", "handler-without-deadline", "call %s: handler context has no deadline", s.Tag)
			} else if rem := r.H.RemainingAtEntry; rem > ttl {
				w.violate("C14", "handler-deadline-beyond-ttl", "call %s: handler saw %v remaining at entry, the request carried ttl %v", s.Tag, rem, ttl)
			}
		}
		// caller's own wait ends accordingly
		w.eval("C14.caller-outcome")
		code := tchannel.GetSystemErrorCode(r.Err)
		if r.Cancelled && r.Err != nil && r.EndAt < r.Deadline && code != tchannel.ErrCodeCancelled && r.CancelAt <= r.EndAt {
			// a cancelled call may still have completed or failed for another reason before the cancel
			// took effect; but if it ended BECAUSE of the context, the code must be cancelled
			if code == tchannel.ErrCodeTimeout && maxTO == 0 && r.BeginErr == nil && r.CancelAt+2*time.Millisecond+r.StallIn < r.Deadline {
				w.violate("C14", "cancel-reported-as-timeout", "call %s was cancelled at %v (deadline %v) and ended at %v with %s", s.Tag, r.CancelAt, r.Deadline, r.EndAt, errStr(r.Err))
			}
		}
		if !r.Cancelled && r.Err != nil && r.EndAt >= r.Deadline && code == tchannel.ErrCodeCancelled {
			w.violate("C14", "timeout-reported-as-cancelled", "call %s ran into its deadline %v and ended with %s", s.Tag, r.Deadline, errStr(r.Err))
		}
		// cancel frames on the wire
		cancelFrames := 0
		for _, l := range w.Net.Links {
			if l.A.Owner != cli.Name {
				continue
			}
			for _, tf := range l.Frames[0] {
				if tf.Err == nil && tf.F.Type == wire.TCancel && len(msgs) > 0 && tf.F.ID == msgs[0].first.F.ID {
					cancelFrames++
				}
			}
		}
		// the caller's wait ended BECAUSE of the cancellation, after the request had been written
		// completely (so the library was, or next came to be, waiting for response frames), on a
		// healthy connection: with the option on, the peer must be told
		w.eval("C14.cancel-frame")
		if sendCancel && r.Cancelled && code == tchannel.ErrCodeCancelled && r.WroteEv != 0 && r.CancelEv > r.WroteEv && len(msgs) > 0 && cutEv == 0 &&
			simrt.Cur().Stalled() == r.Stall0 { // (no goroutine was held back since: the writer had its chance)
			healthy := true
			for _, l := range w.Net.Links {
				if l.A.Owner == cli.Name && (l.CutEv != 0 || l.CloseEv[0] != 0 || l.CloseEv[1] != 0) {
					healthy = false
				}
			}
			// the id this call has on the caller's own connection
			var myID uint32
			mine := false
			for _, m := range msgs {
				if m.emitter == cli.Name {
					myID, mine = m.first.F.ID, true
				}
			}
			myCancels := 0
			for _, l := range w.Net.Links {
				if l.A.Owner != cli.Name {
					continue
				}
				for _, tf := range l.Frames[0] {
					if tf.Err == nil && tf.F.Type == wire.TCancel && mine && tf.F.ID == myID {
						myCancels++
					}
				}
			}
			if !mine {
				healthy = false
			}
			cancelFrames := myCancels
			if healthy && cancelFrames == 0 {
				w.violate("C14", "cancel-frame-not-sent", "call %s: SendCancelOnContextCanceled is on, the request was written completely at %v, the caller cancelled at %v and its wait ended with %s at %v, but no cancel frame for id %d was ever written: the handler keeps running until its ttl",
					s.Tag, r.WroteAt, r.CancelAt, errStr(r.Err), r.EndAt, myID)
			}
			if healthy && cancelFrames > 0 {
				w.probe("C14.cancel-frame-sent")
			}
		}
		if !sendCancel && cancelFrames > 0 {
			w.violate("C14", "cancel-frame-without-option", "call %s: a cancel frame was sent although SendCancelOnContextCanceled is off", s.Tag)
		}
		if r.H.Entered {
			w.eval("C14.handler-ctx")
			h := &r.H
			if h.RespErr == nil && h.ArgsRead && s.Mode != "blackhole" && h.ExitEv != 0 && !h.CtxDone {
				w.violate("C14", "ctx-not-cancelled-after-response", "call %s: the handler completed its response but its context is not done", s.Tag)
			}
			hdl := h.Deadline
			if h.Waiting && h.WaitOver && h.DelayDone && h.HasDeadline && h.WaitedUntil > hdl+h.StallInWait+w.Grid {
				w.violate("C14", "ctx-not-done-at-deadline", "call %s: the handler's wait ended by its own timer at %v, its context deadline %v (+%v injected stall) had passed without the context ending", s.Tag, h.WaitedUntil, hdl, h.StallInWait)
			}
			// "...cancelled when ... its connection fails": a handler that was waiting when its
			// connection went away, with plenty of its delay and of its deadline left
			if cutEv != 0 && h.Waiting && h.WaitOver && h.EnterAt < cutTime && h.StallInWait == 0 {
				end := h.DelayEnd
				if end == 0 {
					end = h.WaitedUntil
				}
				// when the handler's node was told (its reader saw the end of the stream)
				seen := time.Duration(0)
				for _, l := range w.Net.Links {
					if l.B.Owner == srv.Name && w.requestOnLink(r, l) && l.EndSeenAt[1] != 0 && (seen == 0 || l.EndSeenAt[1] < seen) {
						seen = l.EndSeenAt[1]
					}
				}
				// (the handler must have been in its wait by then: injected slowness between its
				// entry and the start of the wait is not part of StallInWait)
				if seen != 0 && h.WaitFrom <= seen && end > seen+5*w.Grid && hdl > seen+5*w.Grid {
					w.eval("C14.ctx-on-connection-failure")
					if !(h.CtxDoneInWait && h.CtxDoneAt <= seen+3*w.Grid) {
						cutTime = seen
						w.violate("C14", "ctx-not-cancelled-on-connection-failure", "call %s: the handler's node saw its connection end at %v (clean end of stream=%v, server closing=%v) while the handler was waiting; its context was still live until %v (deadline %v)",
							s.Tag, cutTime, cutClean, closeFirst, end, hdl)
					}
				}
			}
			if h.CtxDoneInWait && h.CtxDoneAt+w.Grid < hdl {
				// something ended the handler's context before its deadline while it was still working:
				// legitimate causes are a cancel propagated end to end, the connection failing, or a
				// relay's (clamped) timeout cancelling downstream
				connFailed := cutEv != 0
				if !connFailed && !(r.Cancelled && e2e) && hops == 0 {
					w.violate("C14", "ctx-cancelled-without-cause", "call %s: handler context ended at %v (%v) before its deadline %v; caller cancelled=%v, propagation end-to-end=%v, connection cut=%v",
						s.Tag, h.CtxDoneAt, h.CtxErr, hdl, r.Cancelled, e2e, connFailed)
				}
				if r.Cancelled && !e2e && !connFailed && hops == 0 && !srvProp {
					w.violate("C14", "cancel-honoured-without-propagation", "call %s: PropagateCancel is off on the server, yet the handler's context was cancelled at %v right after the caller cancelled at %v", s.Tag, h.CtxDoneAt, r.CancelAt)
				}
			}
			if r.Cancelled && e2e && h.Waiting && h.WaitOver && h.DelayDone && h.StallInWait == 0 && cutEv == 0 {
				// when did the cancel frame for this call reach the handler's node?
				var arrived time.Duration
				for _, l := range w.Net.Links {
					if l.B.Owner != srv.Name {
						continue
					}
					var reqID uint32
					found := false
					for _, tf := range l.Frames[0] {
						if tf.Err != nil {
							continue
						}
						if tf.F.Type == wire.TCallReq && tagOfFrame(tf.F) == s.Tag {
							reqID, found = tf.F.ID, true
						}
						if found && tf.F.Type == wire.TCancel && tf.F.ID == reqID && tf.REv != 0 {
							arrived = tf.RAt
						}
					}
				}
				// no stall was injected while the handler waited, so simulated time did not move
				// while the reader was runnable: a cancel read before the delay ended was processed
				// before the delay ended
				if arrived != 0 && arrived+w.Grid < h.DelayEnd && arrived > h.EnterAt {
					w.violate("C14", "cancel-not-propagated", "call %s: propagation is enabled on every hop, the cancel frame was read by %s at %v, yet the handler waited out its full delay until %v (no stall injected meanwhile)", s.Tag, srv.Name, arrived, h.DelayEnd)
				}
			}
		}
	}
	// every relayed call has ended by now at the caller; at the relays it may live on until
	// the relay's own (clamped) timeout when the cancel was not passed on: let that pass,
	// then every call a host started must have been ended (C09) - before anything is closed
	w.QuiesceStarted = true
	w.stopLags()
	for _, l := range w.Net.Links {
		l.Heal()
	}
	w.settle(4 * time.Minute)
	for _, spy := range spies {
		spy.checkEnded()
	}
	w.quiesce(time.Second, true)
}
