package vsim

import (
	"context"
	"fmt"
	"sort"
	"strings"
	"time"

	tchannel "github.com/uber/tchannel-go"
	"vsim/wire"
)

func init() { families["conns"] = famConns }

type statusEvt struct {
	ev      int64
	hp      string
	in, out int
}

// famConns: connection churn over 2-4 channels - connect, accept, calls,
// graceful connection close, cuts, idle sweeps, peer-list Add/Remove,
// simultaneous closes, and outbound connections whose peer announces another
// host:port - with the bookkeeping compared against simnet's ground truth at
// quiescent moments. Serves C16.
func famConns(w *World) {
	w.Grid = 10 * time.Millisecond
	w.NoFault = false
	w.drawSchedule(false)
	w.linkDefaults()
	nn := 2 + scn(3)
	status := map[string]*[]statusEvt{}
	for i := 0; i < nn; i++ {
		name := fmt.Sprintf("n%d", i)
		log := &[]statusEvt{}
		status[name] = log
		o := NodeOpts{Name: name, Service: fmt.Sprintf("svc%d", i), Host: fmt.Sprintf("10.0.0.%d", i+1), Port: 4000 + i, Conn: w.connOptsBig(),
			OnPeerStatus: func(p *tchannel.Peer) {
				in, out := p.NumConnections()
				*log = append(*log, statusEvt{ev: w.tick(), hp: p.HostPort(), in: in, out: out})
			}}
		if scnChance(1, 3) {
			o.IdleInterval = time.Duration(5+scn(20)) * w.Grid
			o.MaxIdle = time.Duration(5+scn(40)) * w.Grid
		}
		n := w.addNode(o)
		n.Ch.Register(&echoHandler{w: w, n: n}, "echo")
	}
	// address aliases: dialling the alias reaches the node, which announces its real host:port
	alias := map[string]*Node{}
	for i, n := range w.Nodes {
		a := fmt.Sprintf("10.9.9.%d:%d", i+1, 9000+i)
		alias[a] = n
		w.Net.Alias[a] = n.HostPort
	}
	w.describe("conns nodes=%d", nn)
	referenced := map[string]map[string]bool{} // node -> host:ports added to its channel peer list
	for _, n := range w.Nodes {
		referenced[n.Name] = map[string]bool{}
	}
	changes := map[string]map[string]int{} // node -> remote peer key -> gains+losses the model saw
	settle := func() { sleep(150 * time.Millisecond) }
	nops := 4 + scn(25)
	for op := 0; op < nops; op++ {
		a := w.Nodes[scn(nn)]
		b := w.Nodes[(indexOf(w.Nodes, a)+1+scn(nn-1))%nn]
		switch k := scn(12); k {
		case 11: // an alias connect whose connection is cut the moment its handshake completes
			for _, al := range sortedKeys(alias) {
				if alias[al] != b {
					continue
				}
				n0 := len(w.Net.Links)
				clean := scnChance(1, 2)
				w.tasks(func() {
					ctx, cancel := context.WithTimeout(context.Background(), time.Second)
					a.Ch.Connect(ctx, al)
					cancel()
				}, func() {
					for i := 0; i < 300; i++ {
						if len(w.Net.Links) > n0 {
							if l := w.Net.Links[len(w.Net.Links)-1]; l.handshakeDone() {
								w.Net.Fired["net.cut-after-handshake"]++
								w.event("op", "link%d is cut right after its handshake (clean=%v)", l.ID, clean)
								if clean {
									l.B.Close()
								} else {
									l.reset(w.Net, "conns: cut after handshake")
								}
								return
							}
						}
						sleep(w.Grid / 20)
					}
				})
				w.event("op", "%s connected to %s through alias %s while the link was being cut", a.Name, b.Name, al)
			}
		case 0, 1: // connect
			ctx, cancel := context.WithTimeout(context.Background(), time.Second)
			a.Ch.Connect(ctx, b.HostPort)
			cancel()
			w.event("op", "%s connects to %s", a.Name, b.Name)
		case 2: // connect through an alias (peer announces a different host:port)
			for _, al := range sortedKeys(alias) {
				if alias[al] == b {
					ctx, cancel := context.WithTimeout(context.Background(), time.Second)
					a.Ch.Connect(ctx, al)
					cancel()
					w.event("op", "%s connects to %s through alias %s", a.Name, b.Name, al)
					w.probe("C16.alias-connect")
				}
			}
		case 3, 4: // a call (creates a connection when none is active)
			r := w.newCall(CallSpec{From: a, To: b.HostPort, Service: b.Service, Via: "direct", Timeout: 2 * time.Second, Len3: scn(3000), Rs2: -1, Rs3: -1})
			w.Call(r)
		case 5: // cut a live link
			var live []*Link
			for _, l := range w.Net.Links {
				if l.CutEv == 0 && l.CloseEv[0] == 0 && l.CloseEv[1] == 0 {
					live = append(live, l)
				}
			}
			if len(live) > 0 {
				l := live[scn(len(live))]
				w.Net.Fired["net.cut"]++
				w.event("op", "cut link%d", l.ID)
				l.reset(w.Net, "conns: cut")
			}
		case 6: // graceful close of one connection, possibly from both ends at once
			ctx, cancel := context.WithTimeout(context.Background(), time.Second)
			c, err := a.Ch.Connect(ctx, b.HostPort)
			cancel()
			if err == nil {
				settle()
				if scnChance(1, 2) {
					// the other end closes its side of the same link at the same moment
					var other *tchannel.Connection
					ctx2, cancel2 := context.WithTimeout(context.Background(), time.Second)
					if p, ok := b.Ch.RootPeers().Get(a.HostPort); ok {
						other, _ = p.GetConnection(ctx2)
					}
					cancel2()
					w.tasks(func() { c.Close() }, func() {
						if other != nil {
							other.Close()
						}
					})
					w.probe("C16.simultaneous-close")
				} else {
					c.Close()
				}
				w.event("op", "%s closes a connection to %s", a.Name, b.Name)
			}
		case 7:
			if scnChance(1, 2) {
				// several goroutines add the same host:port at once
				k := 2 + scn(2)
				var adds []func()
				for i := 0; i < k; i++ {
					if scnChance(1, 2) {
						adds = append(adds, func() { a.Ch.Peers().Add(b.HostPort) })
					} else {
						adds = append(adds, func() { a.Ch.Peers().GetOrAdd(b.HostPort) })
					}
				}
				w.tasks(adds...)
				w.probe("C16.concurrent-add")
			} else {
				a.Ch.Peers().Add(b.HostPort)
			}
			referenced[a.Name][b.HostPort] = true
			w.mustLeave[a.Name+"/"+b.HostPort] = false
			w.event("op", "%s adds %s to its peer list", a.Name, b.HostPort)
		case 8:
			err := a.Ch.Peers().Remove(b.HostPort)
			// judged by the library's own list AFTER the Remove returned: a connection still
			// listed on the peer now is removed later, when no list references the peer
			hadLive := false
			if p, ok := a.Ch.RootPeers().Get(b.HostPort); ok {
				in, out := p.NumConnections()
				hadLive = in+out > 0
			}
			// `referenced` stays marked for the first rule (a Remove does not by itself evict the
			// peer). The second rule: a peer that still had a live connection when the one list
			// holding it dropped it loses its last connection LATER, unreferenced, and must then
			// leave the root list.
			if err == nil && hadLive {
				w.mustLeave[a.Name+"/"+b.HostPort] = true
				w.probe("C16.removed-from-list-while-connected")
			}
			w.event("op", "%s removes %s from its peer list: %v (connections still listed on the peer afterwards: %v)", a.Name, b.HostPort, err, hadLive)
		case 9: // let idle sweeps run
			sleep(time.Duration(10+scn(60)) * w.Grid)
		case 10: // concurrent burst of connects in both directions
			w.tasks(func() {
				ctx, cancel := context.WithTimeout(context.Background(), time.Second)
				a.Ch.Connect(ctx, b.HostPort)
				cancel()
			}, func() {
				ctx, cancel := context.WithTimeout(context.Background(), time.Second)
				b.Ch.Connect(ctx, a.HostPort)
				cancel()
			})
		}
		w.probe("ops.done")
		if scnChance(1, 3) {
			settle()
			w.checkBookkeeping(alias, referenced, fmt.Sprintf("after op %d", op))
		}
	}
	settle()
	w.checkBookkeeping(alias, referenced, "at the end")
	// status callbacks: at least one per connection gained and per connection lost
	for _, n := range w.Nodes {
		gains := map[string]int{}
		for _, l := range w.Net.Links {
			for side := 0; side < 2; side++ {
				c := l.A
				if side == 1 {
					c = l.B
				}
				if c.Owner != n.Name || !l.handshakeDone() || !w.seenListed[fmt.Sprintf("%s/%d", n.Name, l.ID)] {
					continue // only connections the library itself listed at a quiescent check are counted
				}
				key := w.peerKeyFor(l, side)
				gains[key]++ // gained
				if c.closed {
					gains[key]++ // and lost: this node has closed its socket, which it does only after it dropped the connection from the peer
				}
			}
		}
		changes[n.Name] = gains
		got := map[string]int{}
		for _, e := range *status[n.Name] {
			got[e.hp]++
		}
		for _, hp := range sortedKeys(gains) {
			w.eval("C16.status-callbacks")
			if got[hp] < gains[hp] {
				w.violate("C16", "status-callback-missing", "node %s: peer %s gained/lost connections %d times, OnPeerStatusChanged fired %d times for it", n.Name, hp, gains[hp], got[hp])
			}
		}
	}
	w.quiesce(time.Second, true)
}

func (l *Link) handshakeDone() bool {
	okReq, okRes := false, false
	for _, tf := range l.Frames[0] {
		if tf.Err == nil && tf.F.Type == wire.TInitReq {
			okReq = true
		}
	}
	for _, tf := range l.Frames[1] {
		if tf.Err == nil && tf.F.Type == wire.TInitRes && tf.REv != 0 {
			okRes = true
		}
	}
	return okReq && okRes
}

// peerKeyFor: under which peer host:port the endpoint on `side` registers this link.
func (w *World) peerKeyFor(l *Link, side int) string {
	if side == 0 {
		// dialer: the peer announces its own host:port (what init res carried)
		for _, tf := range l.Frames[1] {
			if tf.Err == nil && tf.F.Type == wire.TInitRes {
				for _, kv := range tf.F.Params {
					if kv.K == "host_port" {
						return kv.V
					}
				}
			}
		}
		return string(l.A.remote)
	}
	for _, tf := range l.Frames[0] {
		if tf.Err == nil && tf.F.Type == wire.TInitReq {
			for _, kv := range tf.F.Params {
				if kv.K == "host_port" {
					if kv.V == "0.0.0.0:0" {
						return string(l.B.remote)
					}
					return kv.V
				}
			}
		}
	}
	return string(l.B.remote)
}

// checkBookkeeping compares, at a quiescent moment, every node's view with
// simnet's ground truth.
func (w *World) checkBookkeeping(alias map[string]*Node, referenced map[string]map[string]bool, when string) {
	nviol, nhist := len(w.Viol), len(w.Hist)
	w.checkBookkeepingOnce(alias, referenced, when)
	if len(w.Viol) == nviol {
		return
	}
	// A discrepancy. The comparison may have run at the very instant of an event (a sweep
	// tick closing connections) with the library's goroutines half-way through acting on
	// it - sockets closed, callbacks not yet run: that is not a quiescent moment. Only
	// what is still there a little later counts.
	w.Viol = w.Viol[:nviol]
	for i := nhist; i < len(w.Hist); i++ {
		if w.Hist[i].Kind == "VIOLATION" {
			w.Hist[i].Kind = "to-be-confirmed"
		}
	}
	w.probe("C16.discrepancy-looked-at-again")
	sleep(50 * time.Millisecond)
	w.checkBookkeepingOnce(alias, referenced, when+", confirmed 50ms later")
}

func (w *World) checkBookkeepingOnce(alias map[string]*Node, referenced map[string]map[string]bool, when string) {
	// "at any quiescent moment": no connection is half-way through going away
	// (one end closed, the other not yet) and nothing is in flight
	quiescent := func() bool {
		for _, l := range w.Net.Links {
			if l.A.closed != l.B.closed {
				return false
			}
			if (l.CutEv != 0 || l.CloseEv[0] != 0 || l.CloseEv[1] != 0) && (!l.A.closed || !l.B.closed) {
				return false
			}
			for _, p := range []*pipe{l.A.wr, l.B.wr} {
				if !l.A.closed && (p.inflight > 0 || len(p.buf) > 0) {
					return false
				}
			}
		}
		return true
	}
	ok := false
	for i := 0; i < 40; i++ {
		if quiescent() {
			// and it stays so for a moment (callbacks of the last event have run)
			sleep(5 * time.Millisecond)
			if quiescent() {
				ok = true
				break
			}
		}
		sleep(20 * time.Millisecond)
	}
	if !ok {
		w.probe("C16.no-quiescent-moment")
		return
	}
	// the comparison itself takes scheduling steps: its findings only count if the
	// network did not change underneath it
	gen0 := w.Net.Gen
	nviol := len(w.Viol)
	nhist := len(w.Hist)
	defer func() {
		// a sweep or a failure the library has already begun to act on shows up on the
		// sockets a moment later: look again shortly after
		sleep(30 * time.Millisecond)
		if w.Net.Gen != gen0 || !quiescent() {
			w.Viol = w.Viol[:nviol]
			for i := nhist; i < len(w.Hist); i++ {
				if w.Hist[i].Kind == "VIOLATION" {
					w.Hist[i].Kind = "discarded"
				}
			}
			w.probe("C16.check-discarded(network changed meanwhile)")
		} else {
			w.probe("C16.quiescent-checks")
		}
	}()
	for _, n := range w.Nodes {
		w.eval("C16.bookkeeping")
		st := n.Ch.IntrospectState(&tchannel.IntrospectionOptions{IncludeEmptyPeers: true})
		// ground truth: live links of this node
		type ck struct{ local, remote string }
		wantIn, wantOut := map[string][]ck{}, map[string][]ck{}
		type liveLink struct {
			key string
			id  int
		}
		var liveLinks []liveLink
		live := 0
		notClosed := 0
		for _, l := range w.Net.Links {
			for side := 0; side < 2; side++ {
				c := l.A
				if side == 1 {
					c = l.B
				}
				if c.Owner != n.Name || !l.handshakeDone() {
					continue
				}
				if !c.closed {
					notClosed++
				}
				if l.CutEv != 0 || l.CloseEv[0] != 0 || l.CloseEv[1] != 0 {
					continue
				}
				live++
				k := ck{string(c.local), string(c.remote)}
				liveLinks = append(liveLinks, liveLink{fmt.Sprint(k), l.ID})
				key := w.peerKeyFor(l, side)
				if side == 0 {
					wantOut[key] = append(wantOut[key], k)
					if dialled := string(l.A.dialled); dialled != "" && dialled != key {
						wantOut[dialled] = append(wantOut[dialled], k) // host:port mismatch: listed under both
					}
				} else {
					wantIn[key] = append(wantIn[key], k)
				}
			}
		}
		gotIn, gotOut := map[string][]ck{}, map[string][]ck{}
		for _, hp := range sortedKeys(st.RootPeers) {
			p := st.RootPeers[hp]
			for _, c := range p.InboundConnections {
				gotIn[hp] = append(gotIn[hp], ck{c.LocalHostPort, c.RemoteHostPort})
			}
			for _, c := range p.OutboundConnections {
				gotOut[hp] = append(gotOut[hp], ck{c.LocalHostPort, c.RemoteHostPort})
			}
			if len(p.InboundConnections)+len(p.OutboundConnections) == 0 && w.mustLeave[n.Name+"/"+hp] && w.liveConnections(n, hp) == 0 {
				w.violate("C16", "unreferenced-peer-kept", "%s, node %s: peer %s was removed from the only peer list that held it while it still had a connection; its last connection is gone now, but it is still in the root list (the library counts %d list references)", when, n.Name, hp, p.SCCount)
			}
			for _, c := range append(append([]tchannel.ConnectionRuntimeState{}, p.InboundConnections...), p.OutboundConnections...) {
				// the library itself listed this connection on this peer
				w.mustLeave["seen:"+n.Name+"/"+hp+"/"+c.LocalHostPort+">"+c.RemoteHostPort] = true
			}
			// a peer nobody references and that has no connection must have left the root list
			// (a peer that never got a connection listed - its only connection died before it could
			// be registered under this name - is like one created by a failed Connect: it stays)
			if len(p.InboundConnections)+len(p.OutboundConnections) == 0 && p.SCCount == 0 && !referenced[n.Name][hp] {
				if w.lastConnectionWasListed(n, hp) {
					w.violate("C16", "stale-peer-in-root-list", "%s, node %s: peer %s has no connection left and no peer list references it, but it is still in the root list", when, n.Name, hp)
				}
			}
		}
		cmp := func(dir string, want, got map[string][]string) {
			keys := map[string]bool{}
			for k := range want {
				keys[k] = true
			}
			for k := range got {
				keys[k] = true
			}
			for _, hp := range sortedKeys(keys) {
				a, b := want[hp], got[hp]
				sa, sb := fmt.Sprint(sortCk(a)), fmt.Sprint(sortCk(b))
				if sa != sb {
					w.violate("C16", "peer-connections-differ", "%s, node %s, peer %s %s: library lists %v, live connections are %v%s", when, n.Name, hp, dir, sortCk(b), sortCk(a), w.lossCoincidence(n, hp, a, b))
				}
			}
		}
		for _, ll := range liveLinks {
			for _, m := range []map[string][]ck{gotIn, gotOut} {
				for _, v := range m {
					for _, x := range v {
						if fmt.Sprint(x) == ll.key {
							if w.seenListed == nil {
								w.seenListed = map[string]bool{}
							}
							w.seenListed[fmt.Sprintf("%s/%d", n.Name, ll.id)] = true
						}
					}
				}
			}
		}
		cmp("inbound", toStr(wantIn), toStr(gotIn))
		cmp("outbound", toStr(wantOut), toStr(gotOut))
		if st.NumConnections != notClosed && st.NumConnections != live {
			// the channel tracks not-yet-closed connections: between "left active" and "socket closed"
			w.violate("C16", "channel-connection-count", "%s, node %s: channel tracks %d connections; %d are live, %d have an open socket", when, n.Name, st.NumConnections, live, notClosed)
		}
	}
}

// lossCoincidence tags the one interleaving the open finding is about: a live
// connection missing from the library's lists was established within 20ms
// (simulated) of the moment the same peer lost what was then its last
// connection.
func (w *World) lossCoincidence(n *Node, hp string, live, listed []string) string {
	tag := ""
	missing := map[string]bool{}
	for _, x := range live {
		missing[x] = true
	}
	for _, x := range listed {
		delete(missing, x)
	}
	if len(missing) == 0 || len(listed) > len(live) {
		return ""
	}
	for _, x := range listed {
		found := false
		for _, y := range live {
			if x == y {
				found = true
			}
		}
		if !found {
			return "" // the library lists something that is not live: a different problem
		}
	}
	for _, l := range w.Net.Links {
		for side := 0; side < 2; side++ {
			c := l.A
			if side == 1 {
				c = l.B
			}
			if c.Owner != n.Name || !missing[fmt.Sprint(struct{ local, remote string }{string(c.local), string(c.remote)})] {
				continue
			}
			est := l.establishedAt()
			coincides := false
			for _, o := range w.Net.Links {
				if o == l {
					continue
				}
				for os := 0; os < 2; os++ {
					oc := o.A
					if os == 1 {
						oc = o.B
					}
					if oc.Owner != n.Name || !o.handshakeDone() || (w.peerKeyFor(o, os) != hp && string(o.A.dialled) != hp) {
						continue
					}
					lost := time.Duration(-1)
					if o.CutEv != 0 {
						lost = o.CutAt
					}
					for k := 0; k < 2; k++ {
						if o.CloseEv[k] != 0 && (lost < 0 || o.CloseAt[k] < lost) {
							lost = o.CloseAt[k]
						}
					}
					if lost >= 0 && est-lost <= 20*time.Millisecond && lost-est <= 20*time.Millisecond {
						coincides = true
						tag = fmt.Sprintf(" [coincides-with-loss-of-last-connection: link%d established at %v, link%d of the same peer lost at %v]", l.ID, est, o.ID, lost)
					}
				}
			}
			if !coincides {
				return ""
			}
		}
	}
	return tag
}

func (l *Link) establishedAt() time.Duration {
	for _, tf := range l.Frames[1] {
		if tf.Err == nil && tf.F.Type == wire.TInitRes {
			return tf.WAt
		}
	}
	return -1
}

func toStr[T any](m map[string][]T) map[string][]string {
	out := map[string][]string{}
	for k, v := range m {
		for _, x := range v {
			out[k] = append(out[k], fmt.Sprint(x))
		}
	}
	return out
}

func sortCk(a []string) []string {
	b := append([]string(nil), a...)
	sort.Strings(b)
	return b
}

// hadConnection: did node n ever have an established link registered under hp?
// liveConnections counts the live links of node n that belong to peer hp
// (announced host:port, or the address dialled).
func (w *World) liveConnections(n *Node, hp string) int {
	k := 0
	for _, l := range w.Net.Links {
		if l.CutEv != 0 || l.CloseEv[0] != 0 || l.CloseEv[1] != 0 {
			continue
		}
		for side := 0; side < 2; side++ {
			c := l.A
			if side == 1 {
				c = l.B
			}
			if c.Owner == n.Name && (w.peerKeyFor(l, side) == hp || (side == 0 && string(l.A.dialled) == hp)) {
				k++
			}
		}
	}
	return k
}

// lastConnectionWasListed: the most recent link of node n that belongs to peer hp was seen
// listed on that peer by the library (so its removal was "the peer's last connection removed").
func (w *World) lastConnectionWasListed(n *Node, hp string) bool {
	var last *Link
	side := 0
	for _, l := range w.Net.Links {
		for sd := 0; sd < 2; sd++ {
			c := l.A
			if sd == 1 {
				c = l.B
			}
			if c.Owner == n.Name && l.handshakeDone() && (w.peerKeyFor(l, sd) == hp || (sd == 0 && string(l.A.dialled) == hp)) {
				last, side = l, sd
			}
		}
	}
	if last == nil {
		return false
	}
	c := last.A
	if side == 1 {
		c = last.B
	}
	return w.mustLeave["seen:"+n.Name+"/"+hp+"/"+string(c.local)+">"+string(c.remote)]
}

func (w *World) hadConnection(n *Node, hp string) bool {
	for _, l := range w.Net.Links {
		for side := 0; side < 2; side++ {
			c := l.A
			if side == 1 {
				c = l.B
			}
			if c.Owner == n.Name && l.handshakeDone() && (w.peerKeyFor(l, side) == hp || (side == 0 && string(l.A.dialled) == hp)) {
				return true
			}
		}
	}
	return false
}

var _ = strings.TrimSpace
