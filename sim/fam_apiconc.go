package vsim

import (
	"context"
	"fmt"
	"time"

	tchannel "github.com/uber/tchannel-go"
)

func init() { families["apiconc"] = famAPIConc }

// famAPIConc: several application goroutines use the public API of ONE
// channel at the same time - sub-channel calls with retries (first attempts
// shed with busy, so that the retry paths of peer selection run: previously
// selected peers, the "all peers tried" fallback), direct peer selection with
// every kind of previously-selected set, peer-list Add/Remove/Copy/Len, pings,
// explicit connects, introspection, sub-channel creation and handler
// registration. Serves C04: each caller gets its own response, and (race pass)
// no pair of library accesses is unordered.
func famAPIConc(w *World) {
	w.Grid = time.Millisecond
	w.NoFault = true
	w.drawSchedule(true)
	w.linkDefaults()
	ns := 1 + scn(3)
	shed := map[string]int{} // tag -> attempts seen (first one is shed when the tag says so)
	var hps []string
	for i := 0; i < ns; i++ {
		n := w.addNode(NodeOpts{Name: fmt.Sprintf("s%d", i), Service: "svc", Host: fmt.Sprintf("10.0.2.%d", i+1), Port: 5000 + i, Conn: w.connOptsBig()})
		n.Ch.Register(tchannel.HandlerFunc(func(ctx context.Context, call *tchannel.InboundCall) {
			a2, _ := readArg(call.Arg2Reader())(0, 0)
			a3, _ := readArg(call.Arg3Reader())(0, 0)
			tag := string(a2)
			shed[tag]++
			resp := call.Response()
			if len(tag) > 0 && tag[0] == 'B' && shed[tag] == 1 {
				resp.SendSystemError(tchannel.ErrServerBusy)
				return
			}
			writeArg(resp.Arg2Writer())(a2, 0)
			writeArg(resp.Arg3Writer())(respond(a3), 0)
		}), "m")
		hps = append(hps, n.HostPort)
	}
	cli := w.addNode(NodeOpts{Name: "c0", Service: "client0", Host: "10.0.3.1", Port: 3000, Conn: w.connOptsBig()})
	registered := map[string]bool{} // "service method" pairs whose Register has returned
	var srvNodes []*Node
	for _, n := range w.Nodes {
		if n != cli {
			srvNodes = append(srvNodes, n)
		}
	}
	// callOther: a peer calls a handler registered on one of the client's sub-channels
	callOther := func(from *Node, svc, method string) (string, error) {
		ctx, cancel := tchannel.NewContextBuilder(3 * time.Second).Build()
		defer cancel()
		call, err := from.Ch.BeginCall(ctx, cli.HostPort, svc, method, nil)
		if err != nil {
			return "", err
		}
		if err = writeArg(call.Arg2Writer())(nil, 0); err == nil {
			err = writeArg(call.Arg3Writer())(nil, 0)
		}
		var r3 []byte
		if err == nil {
			_, err = readArg(call.Response().Arg2Reader())(0, 0)
		}
		if err == nil {
			r3, err = readArg(call.Response().Arg3Reader())(0, 0)
		}
		return string(r3), err
	}
	sc := cli.Ch.GetSubChannel("svc")
	for _, hp := range hps {
		sc.Peers().Add(hp)
	}
	spare := "10.0.7.7:7777" // never connected to: only added to and removed from the list
	w.describe("apiconc servers=%d", ns)

	ntasks := 2 + scn(5)
	var fs []func()
	ncall := 0
	for t := 0; t < ntasks; t++ {
		nops := 2 + scn(7)
		type op struct {
			kind int
			tag  string
			a3   []byte
			k    int
		}
		var ops []op
		for i := 0; i < nops; i++ {
			o := op{kind: scnPick(0, 0, 0, 1, 2, 3, 4, 5, 6, 7, 7, 8, 9), k: scn(16)}
			if o.kind == 0 {
				ncall++
				o.tag = fmt.Sprintf("%c%d", "BN"[scn(2)], ncall)
				o.a3 = payload(o.tag, 3, scn(3000))
			}
			ops = append(ops, o)
		}
		fs = append(fs, func() {
			for _, o := range ops {
				switch o.kind {
				case 0: // a sub-channel call with retries
					ctx, cancel := tchannel.NewContextBuilder(5 * time.Second).SetRetryOptions(&tchannel.RetryOptions{MaxAttempts: 4}).Build()
					var r2, r3 []byte
					err := cli.Ch.RunWithRetry(ctx, func(ctx context.Context, rs *tchannel.RequestState) error {
						call, err := sc.BeginCall(ctx, "m", &tchannel.CallOptions{RequestState: rs})
						if err != nil {
							return err
						}
						if err = writeArg(call.Arg2Writer())([]byte(o.tag), 0); err == nil {
							err = writeArg(call.Arg3Writer())(o.a3, 0)
						}
						if err == nil {
							r2, err = readArg(call.Response().Arg2Reader())(0, 0)
						}
						if err == nil {
							r3, err = readArg(call.Response().Arg3Reader())(0, 0)
						}
						return err
					})
					cancel()
					w.eval("C04.response-match")
					if err == nil && (string(r2) != o.tag || string(r3) != string(respond(o.a3))) {
						w.violate("C04", "wrong-response", "concurrent sub-channel call %s got a response that is not its own: arg2 %q, arg3 %s", o.tag, trunc(string(r2), 40), diffDesc(r3, respond(o.a3)))
					}
					if err != nil {
						w.probe("C04.apiconc-call-failed")
					}
				case 1: // direct peer selection, previously-selected set of any shape
					prev := map[string]struct{}{}
					for i, hp := range hps {
						if o.k&(1<<uint(i)) != 0 {
							prev[hp] = struct{}{}
							if o.k&8 != 0 {
								prev[hostOf(hp)] = struct{}{}
							}
						}
					}
					if _, err := sc.Peers().Get(prev); err != nil {
						w.probe("C04.apiconc-get-error")
					}
					if len(prev) >= len(hps) {
						w.probe("C04.apiconc-get-with-all-peers-tried")
					}
				case 2:
					sc.Peers().GetNew(map[string]struct{}{hps[o.k%len(hps)]: {}})
				case 3:
					sc.Peers().Add(spare)
					_ = sc.Peers().Len()
				case 4:
					sc.Peers().Remove(spare)
					_ = sc.Peers().Copy()
				case 5:
					ctx, cancel := context.WithTimeout(context.Background(), time.Second)
					cli.Ch.Ping(ctx, hps[o.k%len(hps)])
					cancel()
				case 6:
					cli.Ch.IntrospectState(&tchannel.IntrospectionOptions{IncludeExchanges: true, IncludeEmptyPeers: true})
					_ = cli.Ch.State()
				case 7:
					// a new sub-channel may be created by several goroutines at once (and by an
					// inbound call for that very service): whatever was registered must be served
					svc, method := fmt.Sprintf("other%d", o.k%3), fmt.Sprintf("h%d", o.k)
					x := cli.Ch.GetSubChannel(svc)
					x.Register(tchannel.HandlerFunc(func(ctx context.Context, call *tchannel.InboundCall) {
						readArg(call.Arg2Reader())(0, 0)
						readArg(call.Arg3Reader())(0, 0)
						resp := call.Response()
						writeArg(resp.Arg2Writer())(nil, 0)
						writeArg(resp.Arg3Writer())([]byte(svc+"/"+method), 0)
					}), method)
					registered[svc+" "+method] = true
					x.Peers().Add(hps[o.k%len(hps)])
					if y := cli.Ch.GetSubChannel(svc); y != x {
						w.violate("C04", "sub-channel-replaced", "GetSubChannel(%q) returned another object than a moment ago: what was registered on the first one is lost", svc)
					}
				case 9:
					// an inbound call for a sub-channel that may be just coming into being
					callOther(srvNodes[o.k%len(srvNodes)], fmt.Sprintf("other%d", o.k%3), fmt.Sprintf("h%d", o.k))
				case 8:
					ctx, cancel := context.WithTimeout(context.Background(), time.Second)
					cli.Ch.Connect(ctx, hps[o.k%len(hps)])
					cancel()
				}
				w.probe("ops.done")
			}
		})
	}
	w.tasks(fs...)
	// every handler whose registration returned is served
	for _, key := range sortedKeys(registered) {
		var svc, method string
		fmt.Sscanf(key, "%s %s", &svc, &method)
		w.eval("C04.registered-handler-served")
		got, err := callOther(srvNodes[0], svc, method)
		if err != nil || got != svc+"/"+method {
			w.violate("C04", "registered-handler-not-served", "handler %s::%s was registered (Register returned) while other goroutines used the channel; a later call to it gives %q, %s", svc, method, got, errStr(err))
		}
	}
	w.quiesce(6*time.Second, true)
}
