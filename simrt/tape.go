package simrt

// Stream identifies one decision stream. Every source of randomness in a run
// draws from exactly one stream, so that shrinking one stream (say, the
// schedule) does not shift the draws of another (say, the scenario).
type Stream int

const (
	StrScn Stream = iota // scenario generation: topology, operations, fault plan
	StrSch               // scheduler: who runs, preempt, stall
	StrSel               // order of ready select cases (runtime hook)
	StrNet               // transport: segmentation, latency
	StrLib               // seeds handed to the library's own RNGs
	StrApp               // application-level run-time choices (handler behaviour etc.)
	numStreams
)

var StreamNames = [...]string{"scn", "sch", "sel", "net", "lib", "app"}

// Tape is one decision stream. In a fresh run choices come from a PRNG seeded
// from (run seed, stream); in a replay they come from the recorded vector.
// Each decision is recorded as (arity, chosen).
type Tape struct {
	rng    *tapeRng
	replay []uint32 // flattened (n, chosen) pairs, nil in a fresh run
	pos    int      // index into replay, in pairs
	Rec    []uint32 // flattened (n, chosen) pairs of this run
	// Diverged counts decisions whose arity differed from the replay vector
	// or that ran past its end. A strict replay requires zero.
	Diverged int
}

// tapeRng is a small self-contained generator (no standard-library state: in race builds
// instrumented library code called from this uninstrumented package only produces noise).
type tapeRng struct{ s uint64 }

func (r *tapeRng) Intn(n int) int {
	r.s += 0x9e3779b97f4a7c15
	return int(splitmix(r.s) % uint64(n))
}

func splitmix(x uint64) uint64 {
	x += 0x9e3779b97f4a7c15
	x = (x ^ (x >> 30)) * 0xbf58476d1ce4e5b9
	x = (x ^ (x >> 27)) * 0x94d049bb133111eb
	return x ^ (x >> 31)
}

func newTape(seed uint64, st Stream, replay []uint32, isReplay bool) *Tape {
	t := &Tape{}
	if isReplay {
		t.replay = replay
		if t.replay == nil {
			t.replay = []uint32{}
		}
	} else {
		t.rng = &tapeRng{s: splitmix(seed ^ splitmix(uint64(st)+1))}
	}
	return t
}

// Draw returns a value in [0,n). By convention 0 is the simplest choice (no
// preemption, no fault, lowest key), so that a shrunk tape full of zeros is the
// plainest execution.
func (t *Tape) Draw(n int) int {
	if n <= 0 {
		panic("simrt: Draw(n<=0)")
	}
	var c int
	if t.replay != nil {
		if 2*t.pos+1 < len(t.replay) {
			rn, rc := int(t.replay[2*t.pos]), int(t.replay[2*t.pos+1])
			if rn != n {
				t.Diverged++
			}
			c = rc % n
		} else {
			t.Diverged++
			c = 0
		}
		t.pos++
	} else if n > 1 {
		c = t.rng.Intn(n)
	}
	t.Rec = append(t.Rec, uint32(n), uint32(c))
	return c
}

// Chance returns true with probability num/den; a zero on the tape is false.
func (t *Tape) Chance(num, den int) bool {
	if num <= 0 {
		return false
	}
	if num >= den {
		num = den
	}
	return t.Draw(den) >= den-num
}
