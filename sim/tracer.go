package vsim

import (
	"fmt"
	"strconv"

	opentracing "github.com/opentracing/opentracing-go"
	"github.com/opentracing/opentracing-go/log"
)

// simTracer is a deterministic OpenTracing tracer that understands the
// zipkin-style span format the library uses on the wire, so that span ids are
// (a) assigned by the harness and (b) observable inside handlers. It records
// every span it creates.
type simTracer struct {
	node  string
	next  uint64
	Spans []*simSpanCtx
}

type simSpanCtx struct {
	Trace, Span, Parent uint64
	Flags               byte
	Op                  string
	baggage             map[string]string
	Joined              bool // created from a context extracted from the wire (server side)
}

func (c *simSpanCtx) ForeachBaggageItem(h func(k, v string) bool) {
	for _, k := range sortedKeys(c.baggage) {
		if !h(k, c.baggage[k]) {
			return
		}
	}
}

type simSpan struct {
	t   *simTracer
	ctx *simSpanCtx
}

func newSimTracer(node string, seed uint64) *simTracer {
	return &simTracer{node: node, next: 0x1000000000000 + seed<<20}
}

func (t *simTracer) id() uint64 { t.next += 0x10001; return t.next }

func (t *simTracer) StartSpan(op string, opts ...opentracing.StartSpanOption) opentracing.Span {
	var so opentracing.StartSpanOptions
	for _, o := range opts {
		o.Apply(&so)
	}
	var parent *simSpanCtx
	for _, r := range so.References {
		if p, ok := r.ReferencedContext.(*simSpanCtx); ok && p != nil {
			parent = p
		}
	}
	c := &simSpanCtx{Op: op, baggage: map[string]string{}}
	isServer := false
	if v, ok := so.Tags["span.kind"]; ok && fmt.Sprint(v) == "server" {
		isServer = true
	}
	switch {
	case parent != nil && isServer:
		// zipkin style: the server side joins the span it received
		*c = *parent
		c.Op = op
		c.Joined = true
		c.baggage = map[string]string{}
		for k, v := range parent.baggage {
			c.baggage[k] = v
		}
	case parent != nil:
		c.Trace, c.Parent, c.Span, c.Flags = parent.Trace, parent.Span, t.id(), parent.Flags
		for k, v := range parent.baggage {
			c.baggage[k] = v
		}
	default:
		c.Trace = t.id()
		c.Span = t.id()
		c.Parent = t.id() // three distinct non-zero values make any permutation on the wire visible
		c.Flags = 1
	}
	t.Spans = append(t.Spans, c)
	return &simSpan{t: t, ctx: c}
}

type zipkinInject interface {
	SetTraceID(uint64)
	SetSpanID(uint64)
	SetParentID(uint64)
	SetFlags(byte)
}

type zipkinExtract interface {
	TraceID() uint64
	SpanID() uint64
	ParentID() uint64
	Flags() byte
}

func (t *simTracer) Inject(sc opentracing.SpanContext, format interface{}, carrier interface{}) error {
	c, ok := sc.(*simSpanCtx)
	if !ok {
		return opentracing.ErrInvalidSpanContext
	}
	switch format {
	case "zipkin-span-format":
		z, ok := carrier.(zipkinInject)
		if !ok {
			return opentracing.ErrInvalidCarrier
		}
		z.SetTraceID(c.Trace)
		z.SetSpanID(c.Span)
		z.SetParentID(c.Parent)
		z.SetFlags(c.Flags)
		return nil
	case opentracing.TextMap, opentracing.HTTPHeaders:
		w, ok := carrier.(opentracing.TextMapWriter)
		if !ok {
			return opentracing.ErrInvalidCarrier
		}
		w.Set("sim-trace", fmt.Sprintf("%x:%x:%x:%x", c.Trace, c.Span, c.Parent, c.Flags))
		for _, k := range sortedKeys(c.baggage) {
			w.Set("sim-bag-"+k, c.baggage[k])
		}
		return nil
	}
	return opentracing.ErrUnsupportedFormat
}

func (t *simTracer) Extract(format interface{}, carrier interface{}) (opentracing.SpanContext, error) {
	switch format {
	case "zipkin-span-format":
		z, ok := carrier.(zipkinExtract)
		if !ok {
			return nil, opentracing.ErrInvalidCarrier
		}
		if z.TraceID() == 0 {
			return nil, opentracing.ErrSpanContextNotFound
		}
		return &simSpanCtx{Trace: z.TraceID(), Span: z.SpanID(), Parent: z.ParentID(), Flags: z.Flags(), baggage: map[string]string{}}, nil
	case opentracing.TextMap, opentracing.HTTPHeaders:
		r, ok := carrier.(opentracing.TextMapReader)
		if !ok {
			return nil, opentracing.ErrInvalidCarrier
		}
		c := &simSpanCtx{baggage: map[string]string{}}
		found := false
		r.ForeachKey(func(k, v string) error {
			if k == "sim-trace" {
				var a, b, p, f uint64
				if n, _ := fmt.Sscanf(v, "%x:%x:%x:%x", &a, &b, &p, &f); n == 4 {
					c.Trace, c.Span, c.Parent, c.Flags = a, b, p, byte(f)
					found = true
				}
			} else if len(k) > 8 && k[:8] == "sim-bag-" {
				c.baggage[k[8:]] = v
			}
			return nil
		})
		if !found {
			return nil, opentracing.ErrSpanContextNotFound
		}
		return c, nil
	}
	return nil, opentracing.ErrUnsupportedFormat
}

func (s *simSpan) Finish()                                     {}
func (s *simSpan) FinishWithOptions(opentracing.FinishOptions) {}
func (s *simSpan) Context() opentracing.SpanContext            { return s.ctx }
func (s *simSpan) SetOperationName(op string) opentracing.Span { s.ctx.Op = op; return s }
func (s *simSpan) SetTag(string, interface{}) opentracing.Span { return s }
func (s *simSpan) LogFields(...log.Field)                      {}
func (s *simSpan) LogKV(...interface{})                        {}
func (s *simSpan) SetBaggageItem(k, v string) opentracing.Span { s.ctx.baggage[k] = v; return s }
func (s *simSpan) BaggageItem(k string) string                 { return s.ctx.baggage[k] }
func (s *simSpan) Tracer() opentracing.Tracer                  { return s.t }
func (s *simSpan) LogEvent(string)                             {}
func (s *simSpan) LogEventWithPayload(string, interface{})     {}
func (s *simSpan) Log(opentracing.LogData)                     {}

var _ = strconv.Itoa
