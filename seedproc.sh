#!/bin/bash
# seedproc.sh <id> <agent-worktree> <check-ids...>
# 1. confirms the sub-agent's claim in a fresh scratch worktree of /repo HEAD: builds with the patch, demo fails with it and passes without it
# 2. applies the patch to /repo, runs the given checks (quick, then a larger batch if quick is silent), and undoes it straight afterwards
# 3. stores patch, demo, and the outcome under /verif/seeded/<id>/
ID="$1"; AW="$2"; shift 2; CHECKS="$@"
export GOFLAGS=-mod=mod GOPROXY=off GOSUMDB=off
OUT=/verif/seeded/$ID; mkdir -p $OUT
cp $AW/_seed/patch.diff $OUT/; cp $AW/_seed/notes.md $OUT/agent-notes.md 2>/dev/null
for f in $AW/_seed/*; do case "$f" in *patch.diff|*notes.md) ;; *) cp "$f" $OUT/;; esac; done
WT=/var/tmp/sp.$$; git -C /repo worktree add -q $WT HEAD || exit 2
( cd $WT && git apply $OUT/patch.diff ) || { echo "PATCH DOES NOT APPLY"; git -C /repo worktree remove --force $WT; exit 2; }
( cd $WT && go build ./... ) && echo "build-with-patch: ok" | tee $OUT/confirm.txt || echo "build-with-patch: FAIL" | tee $OUT/confirm.txt
# demo files: everything that is a _test.go or .go in _seed goes where the agent had it (same relative path as in its worktree)
for f in $(cd $AW && git status --porcelain | grep '^??' | awk '{print $2}' | grep -v '^_seed'); do mkdir -p $WT/$(dirname $f); cp -r $AW/$f $WT/$f; done
CMD=$(grep -v '^#' $AW/_seed/demo_cmd.txt | grep -v '^\s*$' | head -1 | sed "s#$AW#$WT#g")
echo "demo command: $CMD" | tee -a $OUT/confirm.txt
( eval "$CMD" ) > $OUT/demo_with_patch.log 2>&1; echo "demo-with-patch exit=$?" | tee -a $OUT/confirm.txt
( cd $WT && git apply -R $OUT/patch.diff )
( eval "$CMD" ) > $OUT/demo_without_patch.log 2>&1; echo "demo-without-patch exit=$?" | tee -a $OUT/confirm.txt
git -C /repo worktree remove --force $WT
# run my checks against the patched /repo
# SEED_WT=1: run the checks against a scratch worktree (VERIF_REPO) instead of patching /repo
# (used while a long check of the unchanged tree is running elsewhere); the batch confirmation
# with the patch applied to /repo itself is done by seedcheck.sh afterwards
if [ -n "${SEED_WT:-}" ]; then
  CW=/var/tmp/spc.$$; git -C /repo worktree add -q $CW HEAD || exit 2
  ( cd $CW && git apply $OUT/patch.diff ) || { echo "cannot apply"; git -C /repo worktree remove --force $CW; exit 2; }
  export VERIF_REPO=$CW
else
  git -C /repo apply $OUT/patch.diff || { echo "cannot apply to /repo"; exit 2; }
fi
: > $OUT/checks.txt
[ -n "${SEED_WT:-}" ] && echo "# run against a scratch worktree of /repo HEAD with the patch applied (VERIF_REPO)" >> $OUT/checks.txt
for c in $CHECKS; do
  r=$(/verif/check $c quick 2>&1); rc=$?
  echo "== $c quick rc=$rc" >> $OUT/checks.txt; echo "$r" | grep "by rule\|^VIOLATION\|^  rule\|quick:" | cut -c1-300 >> $OUT/checks.txt
  if [ $rc -eq 0 ]; then
    r=$(/verif/check $c quick -runs 12000 -nomin 2>&1); rc=$?
    echo "== $c 12000 runs rc=$rc" >> $OUT/checks.txt; echo "$r" | grep "by rule\|^VIOLATION\|^  rule\|quick:" | cut -c1-300 >> $OUT/checks.txt
  fi
done
if [ -n "${SEED_WT:-}" ]; then git -C /repo worktree remove --force $CW; else git -C /repo checkout -- . ; git -C /repo status --short; fi
cat $OUT/confirm.txt; cat $OUT/checks.txt
