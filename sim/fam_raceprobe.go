package vsim

import (
	tchannel "github.com/uber/tchannel-go"
)

func init() { families["raceprobe"] = famRaceProbe }

// famRaceProbe is the self-test of the -race build (./check selftest race):
// probe cfg.Case of tchannel.VerifRaceProbe is run; the driver asserts that the
// race detector reports probe 0 and none of the others.
func famRaceProbe(w *World) {
	w.NoFault = true
	w.drawSchedule(true)
	k := w.cfg.Case
	if k < 0 {
		k = scn(9)
	}
	w.describe("raceprobe %d", k)
	tchannel.VerifRaceProbe(k)
	w.probe("ops.done")
}
