package vsim

import (
	"bytes"
	"context"
	"encoding/binary"
	"fmt"
	"io"
	"net/http"
	"net/url"
	"sort"
	"strings"
	"time"

	tchannel "github.com/uber/tchannel-go"
	thttp "github.com/uber/tchannel-go/http"
	tjson "github.com/uber/tchannel-go/json"
	"github.com/uber/tchannel-go/thrift"
	"github.com/uber/tchannel-go/thrift/arg2"
	gen "github.com/uber/tchannel-go/thrift/gen-go/test"
	"vsim/wire"
)

func init() { families["codec"] = famCodec }

// drawHeaders draws an application header map (possibly empty).
func drawHeaders(seed string) map[string]string {
	n := []int{0, 0, 1, 2, 5, 20, 200}[scn(7)]
	m := map[string]string{}
	for i := 0; i < n; i++ {
		k := fmt.Sprintf("k%d-%s", i, str(scn(12), seed+"k"))
		v := str([]int{0, 1, 10, 300, 5000}[scn(5)], seed+fmt.Sprint(i))
		m[k] = v
	}
	return m
}

func sameMap(a, b map[string]string) bool {
	if len(a) != len(b) {
		return false
	}
	for k, v := range a {
		if bv, ok := b[k]; !ok || bv != v {
			return false
		}
	}
	return true
}

func mapDesc(m map[string]string) string {
	ks := sortedKeys(m)
	if len(ks) > 6 {
		ks = ks[:6]
	}
	return fmt.Sprintf("%d pairs %v...", len(m), ks)
}

// ---- thrift test service ----

type simpleSvc struct {
	w        *World
	seenHdr  map[string]map[string]string // by Data.S2
	respHdr  map[string]map[string]string
	appError map[string]bool
}

func (s *simpleSvc) Call(ctx thrift.Context, arg *gen.Data) (*gen.Data, error) {
	if i := strings.IndexByte(arg.S2, '|'); i >= 0 {
		// "<tag>|<padding>": a body of many frames; the answer pads as well
		tag := arg.S2[:i]
		s.seenHdr[tag] = ctx.Headers()
		if rh, ok := s.respHdr[tag]; ok {
			ctx.SetResponseHeaders(rh)
		}
		return &gen.Data{B1: !arg.B1, S2: tag + "/resp|" + arg.S2[i+1:], I3: arg.I3 + 1}, nil
	}
	s.seenHdr[arg.S2] = ctx.Headers()
	if rh, ok := s.respHdr[arg.S2]; ok {
		ctx.SetResponseHeaders(rh)
	}
	if strings.HasPrefix(arg.S2, "big") {
		// a response of several hundred KiB (the caller has given up long before it is out)
		return &gen.Data{B1: !arg.B1, S2: longMsg(arg.S2, 300000), I3: arg.I3 + 1}, nil
	}
	return &gen.Data{B1: !arg.B1, S2: arg.S2 + "/resp", I3: arg.I3 + 1}, nil
}
func (s *simpleSvc) Simple(ctx thrift.Context) error       { return nil }
func (s *simpleSvc) SimpleFuture(ctx thrift.Context) error { return nil }

type jsonReq struct {
	Tag  string `json:"tag"`
	Body string `json:"body"`
}
type jsonRes struct {
	Tag  string            `json:"tag"`
	Body string            `json:"body"`
	Saw  map[string]string `json:"saw"`
}

// famCodec: thrift, JSON and HTTP-over-TChannel end to end over simnet
// (directly and through a relay that walks arg2 with the key/value iterator),
// plus hostile arg2 bytes from a raw peer against the real handlers and the
// iterator. Serves C18.
func famCodec(w *World) {
	w.Grid = time.Millisecond
	w.NoFault = true
	w.drawSchedule(false)
	w.linkDefaults()
	// (a third of the runs: a server whose send buffer holds one frame, so that a handler
	// writing a large response is still at it when its caller's deadline passes)
	slowResp := scnChance(1, 3)
	sco := w.connOptsBig()
	if slowResp {
		sco.SendBufferSize = 1
	}
	srv := w.addNode(NodeOpts{Name: "s0", Service: "svc0", Host: "10.0.2.1", Port: 5000, Conn: sco, Tracer: newSimTracer("s0", 1)})
	svc := &simpleSvc{w: w, seenHdr: map[string]map[string]string{}, respHdr: map[string]map[string]string{}}
	thrift.NewServer(srv.Ch).Register(gen.NewTChanSimpleServiceServer(svc))
	jsonResp := map[string]map[string]string{}
	tjson.Register(srv.Ch, tjson.Handlers{
		"jecho": func(ctx tjson.Context, req *jsonReq) (*jsonRes, error) {
			if rh, ok := jsonResp[req.Tag]; ok {
				ctx.SetResponseHeaders(rh)
			}
			return &jsonRes{Tag: req.Tag, Body: req.Body + "/resp", Saw: ctx.Headers()}, nil
		},
	}, func(ctx context.Context, err error) {
		w.probe("C18.json-handler-error")
		w.event("json-onerror", "%v", err)
	})
	httpReqs := map[string]*httpSeen{}
	httpPlans := map[string]*httpPlan{}
	srv.Ch.Register(tchannel.HandlerFunc(func(ctx context.Context, call *tchannel.InboundCall) {
		req, err := thttp.ReadRequest(call)
		hs := &httpSeen{err: err}
		if err == nil {
			hs.method, hs.url, hs.hdr = req.Method, req.URL.String(), req.Header
			hs.body, hs.err = io.ReadAll(req.Body)
			if c, ok := req.Body.(io.Closer); ok && hs.err == nil {
				hs.err = c.Close()
			}
		}
		key := "?"
		if err == nil {
			key = req.Header.Get("X-Tag")
			if key == "" {
				key = req.URL.Query().Get("tag")
			}
		}
		httpReqs[key] = hs
		if hs.err != nil {
			call.Response().SendSystemError(tchannel.NewSystemError(tchannel.ErrCodeBadRequest, "bad http request"))
			return
		}
		p := httpPlans[key]
		if p == nil {
			p = &httpPlan{status: 200}
		}
		rw, finish := thttp.ResponseWriter(call.Response())
		for k, vs := range p.hdr {
			for _, v := range vs {
				rw.Header().Add(k, v)
			}
		}
		rw.WriteHeader(p.status)
		rw.Write(p.body)
		finish()
	}), "http")
	target := srv.HostPort
	var spy *SpyRelayHost
	viaRelay := scnChance(1, 3)
	if viaRelay {
		spy = &SpyRelayHost{w: w, name: "r0", IterCheck: true}
		rn := w.addNode(NodeOpts{Name: "r0", Service: "relay", Host: "10.0.1.1", Port: 4500, Conn: w.connOptsBig(), Relay: spy})
		spy.Add(srv.Service, srv.HostPort)
		target = rn.HostPort
	}
	cli := w.addNode(NodeOpts{Name: "c0", Service: "client0", Host: "10.0.3.1", Conn: w.connOptsBig(), Tracer: newSimTracer("c0", 2)})
	sub := scn(5)
	w.describe("codec sub-scenario=%d relay=%v", sub, viaRelay)
	n := 1 + scn(4)
	switch sub {
	case 0: // thrift application headers both ways
		tc := thrift.NewClient(cli.Ch, srv.Service, &thrift.ClientOptions{HostPort: target})
		client := gen.NewTChanSimpleServiceClient(tc)
		// the calls run from several application goroutines at once (header blocks of
		// different calls are then decoded in overlapping time, on both sides); calls
		// without any header alternate with calls carrying many
		if scnChance(1, 2) {
			n += scn(8)
		}
		if scnChance(1, 2) {
			// first a few calls from a raw peer whose thrift header block cannot be decoded
			// (truncated, over-declared, cut across fragments): whatever the failed decodes
			// did to pooled readers and buffers must not show in the calls that follow
			rp := w.newRawPeer("raw0", "10.0.9.1")
			if rc, err := rp.Dial(target); err == nil && rc.Handshake() == nil {
				for i, m := 0, 1+scn(4); i < m; i++ {
					a2, d := hostileArg2("thrift")
					spec := wire.CallSpec{Type: wire.TCallReq, ID: rc.ID(), TTL: 2000, Service: srv.Service, Headers: []wire.KV{{K: "cn", V: "raw"}, {K: "as", V: "thrift"}},
						CsumType: wire.CsumCRC32, Args: [3][]byte{[]byte("SimpleService::Call"), a2, payload("x", 3, scn(300))}}
					if scnChance(1, 3) && len(a2) > 8 {
						spec.MaxFrame = 120 + scn(len(a2))
					}
					w.event("hostile", "thrift arg2 before the conforming calls: %s (%d bytes)", d, len(a2))
					rc.Call(spec, 3*time.Second)
					w.Net.Fired["peer.malformed"]++
				}
				rc.c.Close()
			}
			w.probe("C18.undecodable-headers-before-concurrent-calls")
		}
		if slowResp {
			// ... or a few calls whose (large) response cannot be written out: the caller's
			// deadline passes while the server is still pushing it through a slow link. What
			// the failed writes did to pooled protocol objects must not show afterwards.
			w.linkHook = func(l *Link) {
				for d := 0; d < 2; d++ {
					l.SetCapacity(d, 4<<10)
					l.SetLatency(d, w.Grid, 0)
				}
			}
			for i, m := 0, 1+scn(3); i < m; i++ {
				ctx, cancel := thrift.NewContext(time.Duration(3+scn(10)) * w.Grid)
				client.Call(ctx, &gen.Data{S2: fmt.Sprintf("big%d", i)})
				cancel()
			}
			sleep(500 * w.Grid) // the server's handlers have given up by now
			w.probe("C18.response-write-failed-before-concurrent-calls")
		}
		lanes := 1 + scn(4)
		var fs []func()
		for lane := 0; lane < lanes; lane++ {
			lane := lane
			type one struct {
				i           int
				tag         string
				reqH, respH map[string]string
			}
			var mine []one
			for i := lane; i < n; i += lanes {
				tag := fmt.Sprintf("t%d", i)
				reqH, respH := drawHeaders(tag+"q"), drawHeaders(tag+"r")
				svc.respHdr[tag] = respH
				mine = append(mine, one{i, tag, reqH, respH})
			}
			fs = append(fs, func() {
				for _, c := range mine {
					i, tag, reqH, respH := c.i, c.tag, c.reqH, c.respH
					ctx, cancel := thrift.NewContext(10 * time.Second)
					tctx := thrift.WithHeaders(ctx, reqH)
					body := tag
					if slowResp {
						body = tag + "|" + longMsg(tag, 70000+int(fnv(tag)%80000)) // many frames each way
					}
					res, err := client.Call(tctx, &gen.Data{B1: true, S2: body, I3: int32(i)})
					cancel()
					if err == nil && slowResp {
						if j := strings.IndexByte(res.S2, '|'); j < 0 || res.S2[j+1:] != body[len(tag)+1:] {
							w.violate("C18", "thrift-body", "thrift call %s: the %d-byte body came back altered", tag, len(body))
						} else {
							res.S2 = res.S2[:j]
						}
					}
					w.probe("ops.done")
					w.eval("C18.thrift-headers")
					if err != nil {
						w.violate("C18", "thrift-call-failed", "thrift call %s with %s failed: %v", tag, mapDesc(reqH), err)
						continue
					}
					if res.S2 != tag+"/resp" || res.I3 != int32(i)+1 || res.B1 {
						w.violate("C18", "thrift-body", "thrift call %s: result %+v", tag, res)
					}
					if !sameMap(svc.seenHdr[tag], reqH) {
						w.violate("C18", "thrift-request-headers", "thrift call %s: handler saw %s, caller attached %s", tag, mapDesc(svc.seenHdr[tag]), mapDesc(reqH))
					}
					if !sameMap(tctx.ResponseHeaders(), respH) {
						w.violate("C18", "thrift-response-headers", "thrift call %s: caller saw response headers %s, handler set %s", tag, mapDesc(tctx.ResponseHeaders()), mapDesc(respH))
					}
				}
			})
		}
		w.tasks(fs...)
		if spy != nil {
			w.checkIterator(spy)
		}
	case 1: // JSON
		peer := cli.Ch.Peers().Add(target)
		for i := 0; i < n; i++ {
			tag := fmt.Sprintf("j%d", i)
			reqH, respH := drawHeaders(tag+"q"), drawHeaders(tag+"r")
			jsonResp[tag] = respH
			ctx, cancel := tjson.NewContext(10 * time.Second)
			jctx := tjson.WithHeaders(ctx, reqH)
			var res jsonRes
			body := str(scn(100000), tag)
			if scnChance(1, 2) {
				// the encoded document ends on or next to a multiple of the 4096-byte buffers
				// that sit between the argument stream and the JSON decoder
				overhead := len(`{"tag":"","body":""}`) + len(tag)
				n := (1+scn(6))*4096 - overhead + scn(5) - 2
				if scnChance(1, 4) {
					n = 512*(1+scn(16)) - overhead + scn(3) - 1
				}
				if n < 0 {
					n = 0
				}
				body = str(n, tag)
			}
			err := tjson.CallPeer(jctx, peer, srv.Service, "jecho", &jsonReq{Tag: tag, Body: body}, &res)
			cancel()
			w.probe("ops.done")
			w.eval("C18.json-headers")
			if err != nil {
				w.violate("C18", "json-call-failed", "json call %s with %s failed: %v", tag, mapDesc(reqH), err)
				continue
			}
			if res.Tag != tag || res.Body != body+"/resp" {
				w.violate("C18", "json-body", "json call %s: result tag=%q body %s", tag, res.Tag, diffDesc([]byte(res.Body), []byte(body+"/resp")))
			}
			if !sameMap(res.Saw, reqH) {
				w.violate("C18", "json-request-headers", "json call %s: handler saw %s, caller attached %s", tag, mapDesc(res.Saw), mapDesc(reqH))
			}
			if !sameMap(jctx.ResponseHeaders(), respH) {
				w.violate("C18", "json-response-headers", "json call %s: caller saw response headers %s, handler set %s", tag, mapDesc(jctx.ResponseHeaders()), mapDesc(respH))
			}
		}
	case 2: // HTTP over TChannel
		for i := 0; i < n; i++ {
			tag := fmt.Sprintf("h%d", i)
			method := []string{"GET", "POST", "PUT", "DELETE", "PATCH", "HEAD", "OPTIONS"}[scn(7)]
			u := fmt.Sprintf("http://svc.local/p/%s?tag=%s&q=%s", str(scn(40), tag), tag, url.QueryEscape(str(scn(200), tag+"q")))
			body := payload(tag, 3, drawSize(100000))
			req, _ := http.NewRequest(method, u, bytes.NewReader(body))
			req.Header.Set("X-Tag", tag)
			nh := scn(6)
			for k := 0; k < nh; k++ {
				key := fmt.Sprintf("X-H%d", k)
				for r := 0; r < 1+scn(3); r++ { // repeated headers
					req.Header.Add(key, str(scn(200), tag+fmt.Sprint(k, r)))
				}
			}
			plan := &httpPlan{status: []int{200, 201, 204, 301, 400, 404, 418, 500, 503}[scn(9)], hdr: http.Header{}, body: payload(tag, 13, drawSize(100000))}
			for k := 0; k < scn(5); k++ {
				for r := 0; r < 1+scn(3); r++ {
					plan.hdr.Add(fmt.Sprintf("X-R%d", k), str(scn(100), tag+"r"+fmt.Sprint(k, r)))
				}
			}
			httpPlans[tag] = plan
			ctx, cancel := tchannel.NewContextBuilder(10 * time.Second).Build()
			call, err := cli.Ch.BeginCall(ctx, target, srv.Service, "http", &tchannel.CallOptions{Format: tchannel.HTTP})
			var resp *http.Response
			var rbody []byte
			if err == nil {
				err = thttp.WriteRequest(call, req)
			}
			if err == nil {
				resp, err = thttp.ReadResponse(call.Response())
			}
			if err == nil {
				rbody, err = io.ReadAll(resp.Body)
				if c, ok := resp.Body.(io.Closer); ok && err == nil {
					err = c.Close()
				}
			}
			cancel()
			w.probe("ops.done")
			w.eval("C18.http")
			desc := fmt.Sprintf("http call %s %s (%d header values, body %d, response status %d, %d header values, body %d)", tag, method, headerCount(req.Header), len(body), plan.status, headerCount(plan.hdr), len(plan.body))
			if err != nil {
				w.violate("C18", "http-call-failed", "%s failed: %v", desc, err)
				continue
			}
			hs := httpReqs[tag]
			if hs == nil || hs.method != method || hs.url != u || !sameHeader(hs.hdr, req.Header) || !bytes.Equal(hs.body, body) {
				w.violate("C18", "http-request-differs", "%s: the handler decoded method=%q url ok=%v headers ok=%v body %s", desc, hsMethod(hs), hs != nil && hs.url == u, hs != nil && sameHeader(hs.hdr, req.Header), diffDesc(hsBody(hs), body))
			}
			if resp.StatusCode != plan.status || !sameHeader(resp.Header, plan.hdr) || !bytes.Equal(rbody, plan.body) {
				w.violate("C18", "http-response-differs", "%s: the caller decoded status=%d headers ok=%v body %s", desc, resp.StatusCode, sameHeader(resp.Header, plan.hdr), diffDesc(rbody, plan.body))
			}
		}
	case 3, 4: // hostile arg2 from a raw peer against the real handlers (and the relay's iterator)
		rp := w.newRawPeer("raw0", "10.0.9.1")
		rc, err := rp.Dial(target)
		if err != nil || rc.Handshake() != nil {
			w.violate("C18", "handshake", "conforming handshake failed")
			return
		}
		w.NoFault = false
		m := 1 + scn(8)
		for i := 0; i < m; i++ {
			scheme := []string{"thrift", "json", "http"}[scn(3)]
			method := map[string]string{"thrift": "SimpleService::Call", "json": "jecho", "http": "http"}[scheme]
			a2, d := hostileArg2(scheme)
			spec := wire.CallSpec{Type: wire.TCallReq, ID: rc.ID(), TTL: 2000, Service: srv.Service, Headers: []wire.KV{{K: "cn", V: "raw"}, {K: "as", V: scheme}},
				CsumType: wire.CsumCRC32, Args: [3][]byte{[]byte(method), a2, payload("x", 3, scn(300))}}
			if scnChance(1, 3) && len(a2) > 8 {
				spec.MaxFrame = 120 + scn(len(a2)) // arg2 split across fragments
			}
			w.event("hostile", "%s arg2 to %s: %s (%d bytes)", scheme, method, d, len(a2))
			res := rc.Call(spec, 3*time.Second)
			w.probe("ops.done")
			w.eval("C18.hostile-arg2")
			w.Net.Fired["peer.malformed"]++
			_ = res
		}
		// still alive: a conforming thrift call works
		tc := thrift.NewClient(cli.Ch, srv.Service, &thrift.ClientOptions{HostPort: target})
		ctx, cancel := thrift.NewContext(5 * time.Second)
		if _, err := gen.NewTChanSimpleServiceClient(tc).Call(ctx, &gen.Data{S2: "alive"}); err != nil {
			w.violate("C18", "dead-after-hostile-arg2", "after hostile arg2 bytes a conforming thrift call fails: %v", err)
		}
		cancel()
		rc.c.Close()
	}
	// in-process sampling of the pure codec functions (input generation, not simulation;
	// labelled as such in the evidence)
	w.pureCodecSamples()
	if spy != nil {
		sleep(5 * time.Second)
		spy.checkEnded()
	}
	w.quiesce(5*time.Second, true)
}

type httpSeen struct {
	method, url string
	hdr         http.Header
	body        []byte
	err         error
}

type httpPlan struct {
	status int
	hdr    http.Header
	body   []byte
}

func headerCount(h http.Header) int {
	n := 0
	for _, v := range h {
		n += len(v)
	}
	return n
}

func hsMethod(h *httpSeen) string {
	if h == nil {
		return "<nothing>"
	}
	return h.method
}

func hsBody(h *httpSeen) []byte {
	if h == nil {
		return nil
	}
	return h.body
}

func sameHeader(a, b http.Header) bool {
	if len(a) != len(b) {
		return false
	}
	for k, av := range a {
		bv := b[k]
		if len(av) != len(bv) {
			return false
		}
		x, y := append([]string(nil), av...), append([]string(nil), bv...)
		sort.Strings(x)
		sort.Strings(y)
		for i := range x {
			if x[i] != y[i] {
				return false
			}
		}
	}
	return true
}

// checkIterator: the key/value iterator offered to relay hosts yields exactly
// the pairs an independent reading of arg2 on the wire finds.
func (w *World) checkIterator(spy *SpyRelayHost) {
	// independent reading of what the relay received: every call req frame, in arrival
	// order (RelayHost.Start runs once per call req, in that order)
	idx := -1
	for _, l := range w.Net.Links {
		if l.B.Owner != spy.name {
			continue
		}
		for _, tf := range l.Frames[0] {
			if tf.Err != nil || tf.F.Type != wire.TCallReq || tf.REv == 0 {
				continue
			}
			idx++
			if idx >= len(spy.Calls) {
				return
			}
			c := spy.Calls[idx]
			as := ""
			for _, kv := range tf.F.Headers {
				if kv.K == "as" {
					as = kv.V
				}
			}
			if as != "thrift" || len(tf.F.Chunks) < 2 {
				continue
			}
			// the buffer the iterator walks is the part of arg2 in this first frame
			buf := tf.F.Chunks[1]
			complete := len(tf.F.Chunks) > 2 || !tf.F.More()
			want, whole := prefixDecodeKV(buf)
			w.eval("C18.iterator")
			if fmt.Sprint(c.IterKV) != fmt.Sprint(want) {
				w.violate("C18", "iterator-pairs-differ", "%s: iterator yielded %d pairs, the arg2 bytes it was given hold %d complete pairs (first difference: %s)", c.name(), len(c.IterKV), len(want), firstKVDiff(c.IterKV, want))
				continue
			}
			if complete && whole && c.IterErr != io.EOF {
				w.violate("C18", "iterator-error", "%s: arg2 is complete and well formed (%d pairs) but the iterator ended with %v", c.name(), len(want), c.IterErr)
			}
			if !whole && c.IterErr == io.EOF && len(want) > 0 {
				w.probe("C18.iterator-eof-on-partial-arg2")
			}
		}
	}
}

// prefixDecodeKV reads nh and then as many complete pairs as the bytes hold.
// whole reports that exactly nh pairs were present and nothing was left over.
func prefixDecodeKV(b []byte) (out [][2]string, whole bool) {
	if len(b) < 2 {
		return nil, false
	}
	n := int(b[0])<<8 | int(b[1])
	b = b[2:]
	for i := 0; i < n; i++ {
		var kv [2]string
		for j := 0; j < 2; j++ {
			if len(b) < 2 {
				return out, false
			}
			l := int(b[0])<<8 | int(b[1])
			if len(b) < 2+l {
				return out, false
			}
			kv[j] = string(b[2 : 2+l])
			b = b[2+l:]
		}
		out = append(out, kv)
	}
	return out, len(b) == 0
}

func firstKVDiff(a, b [][2]string) string {
	for i := 0; i < len(a) && i < len(b); i++ {
		if a[i] != b[i] {
			return fmt.Sprintf("pair %d: %q vs %q", i, trunc(a[i][0], 30), trunc(b[i][0], 30))
		}
	}
	return fmt.Sprintf("lengths %d vs %d", len(a), len(b))
}

func uvarint(v uint64) []byte {
	b := make([]byte, 10)
	return b[:binary.PutUvarint(b, v)]
}

// hostileArg2 builds arg2 bytes for a scheme: valid encodings with one field
// pushed to a boundary, truncations, counts exceeding content, huge varints.
func hostileArg2(scheme string) ([]byte, string) {
	var valid []byte
	switch scheme {
	case "thrift":
		valid = encodeKV([][2][]byte{{[]byte("k1"), []byte("v1")}, {[]byte("key2"), []byte(str(scn(50), "v"))}})
	case "json":
		valid = []byte(`{"a":"b","c":"` + str(scn(50), "j") + `"}`)
	case "http":
		valid = append([]byte{3, 'G', 'E', 'T'}, uvarint(10)...)
		valid = append(valid, []byte("http://x/y")...)
		valid = append(valid, 0, 1, 0, 1, 'k', 0, 1, 'v')
	}
	switch k := scn(10); k {
	case 8:
		if scheme != "thrift" {
			return valid, "valid"
		}
		// one of the 16-bit fields (pair count, key and value lengths) at a limit of the
		// field or of the buffer
		offs := []int{0, 2, 6, 10, 16}
		off := offs[scn(len(offs))]
		b := append([]byte(nil), valid...)
		rest := len(b) - off - 2
		v := []uint16{0xffff, 0xfffe, 0xfffd, 0x8000, 0x7fff, uint16(rest), uint16(rest + 1)}[scn(7)]
		binary.BigEndian.PutUint16(b[off:], v)
		return b, fmt.Sprintf("16-bit field at offset %d = %#x", off, v)
	case 0:
		return valid[:scn(len(valid)+1)], "truncated"
	case 1:
		n := scn(64)
		b := make([]byte, n)
		for i := range b {
			b[i] = byte(scn(256))
		}
		return b, "random bytes"
	case 2:
		b := append([]byte(nil), valid...)
		if len(b) >= 2 {
			binary.BigEndian.PutUint16(b, []uint16{0, 1, 0x7fff, 0xffff, uint16(len(b))}[scn(5)])
		}
		return b, "first 16-bit field at a boundary"
	case 3:
		b := append([]byte(nil), valid...)
		pos := scn(len(b))
		b[pos] = boundaryBytes[scn(len(boundaryBytes))]
		return b, fmt.Sprintf("byte %d at a boundary", pos)
	case 4:
		if scheme == "http" {
			v := []uint64{1 << 63, 1<<63 + 1, ^uint64(0), 1 << 62, 1 << 32, 1 << 31}[scn(6)]
			b := append([]byte{3, 'G', 'E', 'T'}, uvarint(v)...)
			b = append(b, []byte("http://x/y")...)
			return b, fmt.Sprintf("url length varint %d", v)
		}
		b := append([]byte(nil), valid...)
		return append(b, make([]byte, scn(100))...), "trailing bytes"
	case 5:
		if scheme == "http" {
			// response-style / header count exceeding content
			b := append([]byte{3, 'G', 'E', 'T'}, uvarint(1)...)
			b = append(b, 'u', 0xff, 0xff)
			return b, "header count 65535 with no content"
		}
		return encodeKV(nil)[:1], "one byte"
	case 6:
		return nil, "empty"
	case 7:
		if scheme == "thrift" {
			b := []byte{0xff, 0xff} // 65535 pairs announced
			b = append(b, 0, 1, 'k', 0, 1, 'v')
			return b, "pair count 65535 with one pair"
		}
		return bytes.Repeat([]byte{'{'}, 1+scn(5000)), "nesting"
	default:
		return valid, "valid"
	}
}

// pureCodecSamples calls the exported pure codec functions in-process with the
// same generator. This is input generation, not simulation; it is cheap and is
// labelled separately in the evidence.
func (w *World) pureCodecSamples() {
	for i := 0; i < 3; i++ {
		h := drawHeaders(fmt.Sprint("pure", i))
		if scnChance(1, 6) {
			// a value at the limit of its 16-bit length prefix
			h["lim"] = str(65533+scn(3), "L")
		}
		var buf bytes.Buffer
		if err := thrift.WriteHeaders(&buf, h); err != nil {
			w.violate("C18", "pure-thrift-headers", "WriteHeaders(%s): %v", mapDesc(h), err)
			continue
		}
		enc := append([]byte(nil), buf.Bytes()...)
		got, err := thrift.ReadHeaders(&buf)
		w.eval("C18.pure(input-generation)")
		if err != nil || !sameMap(got, h) && !(len(h) == 0 && len(got) == 0) {
			w.violate("C18", "pure-thrift-headers", "ReadHeaders(WriteHeaders(%s)) = %s, %v", mapDesc(h), mapDesc(got), err)
		}
		// the iterator over the same bytes yields exactly those pairs
		kvs, _ := decodeKV(enc)
		it, err := arg2.NewKeyValIterator(enc)
		cnt := 0
		for err == nil {
			if cnt >= len(kvs) || string(it.Key()) != string(kvs[cnt][0]) || string(it.Value()) != string(kvs[cnt][1]) {
				w.violate("C18", "pure-iterator", "iterator pair %d differs from an independent decode", cnt)
				break
			}
			cnt++
			it, err = it.Next()
		}
		if cnt != len(kvs) && (err == io.EOF || err == nil) {
			w.violate("C18", "pure-iterator", "iterator yielded %d pairs, buffer holds %d", cnt, len(kvs))
		}
		// hostile bytes: error or value, never a panic (a panic aborts the run and is attributed by the driver)
		for _, sc := range []string{"thrift", "http"} {
			b, _ := hostileArg2(sc)
			thrift.ReadHeaders(bytes.NewReader(b))
			if it, err := arg2.NewKeyValIterator(b); err == nil {
				for k := 0; k < 70000 && err == nil; k++ {
					it, err = it.Next()
				}
			}
		}
	}
}

var _ = strings.TrimSpace
