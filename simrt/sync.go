package simrt

import (
	"sort"
	"sync"
	"time"
	"unsafe"
)

// The primitives below replace sync.Mutex, RWMutex, Cond, WaitGroup, Once and
// Pool in instrumented code. Exactly one managed goroutine runs at a time, so
// their own state needs no locking; what they add over the standard ones is
// (a) blocking that the scheduler can see, (b) scheduling points at acquire
// AND release, (c) determinism.

func meOrNil() (*Sched, *G) {
	s := cur
	if s == nil {
		return nil, nil
	}
	return s, s.me()
}

// Mutex replaces sync.Mutex.
type Mutex struct {
	held    bool
	waiters []*G
}

func (m *Mutex) Lock() {
	s, g := meOrNil()
	if s == nil || g == nil {
		// outside a run (package init): no contention is possible
		m.held = true
		return
	}
	yieldInternal("lock")
	for m.held {
		m.waiters = append(m.waiters, g)
		s.block(g, "mutex")
	}
	m.held = true
	raceAcquire(unsafe.Pointer(m))
}

func (m *Mutex) TryLock() bool {
	yieldInternal("trylock")
	if m.held {
		return false
	}
	m.held = true
	raceAcquire(unsafe.Pointer(m))
	return true
}

func (m *Mutex) Unlock() {
	if !m.held {
		panic("sync: unlock of unlocked mutex")
	}
	raceRelease(unsafe.Pointer(m))
	m.held = false
	s := cur
	if s == nil {
		return
	}
	ws := m.waiters
	m.waiters = nil
	for _, w := range ws {
		s.makeRunnable(w)
	}
	yieldInternal("unlock")
}

// RWMutex replaces sync.RWMutex (writer-preferring, like the standard one).
type RWMutex struct {
	rsem, wsem uint64 // addresses for the race detector's happens-before edges (as in sync.RWMutex)
	writer     bool
	readers    int
	wwaiting   int
	waiters    []*G
}

func (m *RWMutex) wakeAll(s *Sched) {
	ws := m.waiters
	m.waiters = nil
	for _, w := range ws {
		s.makeRunnable(w)
	}
}

func (m *RWMutex) Lock() {
	s, g := meOrNil()
	if s == nil || g == nil {
		m.writer = true
		return
	}
	yieldInternal("lock")
	if m.writer || m.readers > 0 {
		m.wwaiting++
		for m.writer || m.readers > 0 {
			m.waiters = append(m.waiters, g)
			s.block(g, "rwmutex.w")
		}
		m.wwaiting--
	}
	m.writer = true
	raceAcquire(unsafe.Pointer(&m.rsem))
	raceAcquire(unsafe.Pointer(&m.wsem))
}

func (m *RWMutex) Unlock() {
	if !m.writer {
		panic("sync: Unlock of unlocked RWMutex")
	}
	raceRelease(unsafe.Pointer(&m.rsem))
	m.writer = false
	s := cur
	if s == nil {
		return
	}
	m.wakeAll(s)
	yieldInternal("unlock")
}

func (m *RWMutex) RLock() {
	s, g := meOrNil()
	if s == nil || g == nil {
		m.readers++
		return
	}
	yieldInternal("rlock")
	for m.writer || m.wwaiting > 0 {
		m.waiters = append(m.waiters, g)
		s.block(g, "rwmutex.r")
	}
	m.readers++
	raceAcquire(unsafe.Pointer(&m.rsem))
}

func (m *RWMutex) RUnlock() {
	if m.readers <= 0 {
		panic("sync: RUnlock of unlocked RWMutex")
	}
	raceReleaseMerge(unsafe.Pointer(&m.wsem))
	m.readers--
	s := cur
	if s == nil {
		return
	}
	if m.readers == 0 {
		m.wakeAll(s)
	}
	yieldInternal("runlock")
}

func (m *RWMutex) RLocker() sync.Locker { return rlocker{m} }

type rlocker struct{ m *RWMutex }

func (r rlocker) Lock()   { r.m.RLock() }
func (r rlocker) Unlock() { r.m.RUnlock() }

// Cond replaces sync.Cond. Waits are ticketed: a Signal issued while the
// waiter is still inside L.Unlock (which is a scheduling point) is not lost.
type condWaiter struct {
	g        *G
	signaled bool
}

type Cond struct {
	L       sync.Locker
	waiters []*condWaiter
}

func NewCond(l sync.Locker) *Cond { return &Cond{L: l} }

func (c *Cond) Wait() {
	s, g := meOrNil()
	if g == nil {
		panic("simrt: Cond.Wait from unmanaged goroutine")
	}
	w := &condWaiter{g: g}
	c.waiters = append(c.waiters, w)
	c.L.Unlock()
	for !w.signaled {
		s.block(g, "cond")
	}
	c.L.Lock()
}

func (c *Cond) Broadcast() {
	s := cur
	ws := c.waiters
	c.waiters = nil
	for _, w := range ws {
		w.signaled = true
		s.makeRunnable(w.g)
	}
}

func (c *Cond) Signal() {
	if len(c.waiters) > 0 {
		w := c.waiters[0]
		c.waiters = c.waiters[1:]
		w.signaled = true
		cur.makeRunnable(w.g)
	}
}

// WaitGroup replaces sync.WaitGroup.
type WaitGroup struct {
	sema    uint64
	n       int
	waiters []*G
}

func (wg *WaitGroup) Add(d int) {
	yieldInternal("wgadd")
	if d < 0 {
		raceReleaseMerge(unsafe.Pointer(&wg.sema))
	}
	wg.n += d
	if wg.n < 0 {
		panic("sync: negative WaitGroup counter")
	}
	if wg.n == 0 && cur != nil {
		ws := wg.waiters
		wg.waiters = nil
		for _, w := range ws {
			cur.makeRunnable(w)
		}
	}
}

func (wg *WaitGroup) Done() { wg.Add(-1) }

func (wg *WaitGroup) Wait() {
	s, g := meOrNil()
	if g == nil {
		if wg.n != 0 {
			panic("simrt: WaitGroup.Wait would block on unmanaged goroutine")
		}
		return
	}
	yieldInternal("wgwait")
	for wg.n > 0 {
		wg.waiters = append(wg.waiters, g)
		s.block(g, "waitgroup")
	}
	raceAcquire(unsafe.Pointer(&wg.sema))
}

// Once replaces sync.Once.
type Once struct {
	sema uint64
	done bool
	m    Mutex
}

func (o *Once) Do(f func()) {
	if o.done {
		raceAcquire(unsafe.Pointer(&o.sema))
		return
	}
	o.m.Lock()
	defer o.m.Unlock()
	if !o.done {
		defer func() { raceRelease(unsafe.Pointer(&o.sema)); o.done = true }()
		f()
	}
}

// Pool replaces sync.Pool with a deterministic LIFO, so that pooled objects
// (checksums, relay timers, frames) are reused in every run.
type Pool struct {
	sema  uint64
	New   func() interface{}
	items []interface{}
}

func (p *Pool) Get() interface{} {
	if n := len(p.items); n > 0 {
		x := p.items[n-1]
		p.items[n-1] = nil
		p.items = p.items[:n-1]
		raceAcquire(unsafe.Pointer(&p.sema))
		return x
	}
	if p.New != nil {
		return p.New()
	}
	return nil
}

func (p *Pool) Put(x interface{}) {
	raceReleaseMerge(unsafe.Pointer(&p.sema))
	p.items = append(p.items, x)
}

// TimerReset replaces (*time.Timer).Reset: same effect, and the new expiry is
// registered as an instant for targeted stalls.
func TimerReset(t *time.Timer, d time.Duration) bool {
	if cur != nil && d > 0 && d < time.Hour {
		AddInstant(time.Now().Add(d))
	}
	return t.Reset(d)
}

// AfterFunc replaces time.AfterFunc: the callback runs as a managed goroutine,
// so "the timer has fired but its callback has not run yet" is a state the
// scheduler can hold for as long as it likes.
func AfterFunc(d time.Duration, f func()) *time.Timer {
	if cur != nil && d > 0 && d < time.Hour {
		AddInstant(time.Now().Add(d))
	}
	return AfterFuncQuiet(d, f)
}

// AfterFuncQuiet is AfterFunc without registering the expiry as an instant.
func AfterFuncQuiet(d time.Duration, f func()) *time.Timer {
	s := cur
	if s == nil {
		return time.AfterFunc(d, f)
	}
	raceDisable()
	s.mu.Lock()
	s.timerSeq++
	id := s.timerSeq
	s.mu.Unlock()
	raceEnable()
	site := "timer"
	fires := 0
	return time.AfterFunc(d, func() {
		// Runs on a runtime timer goroutine inside the bubble: register as a
		// managed goroutine and park before touching anything.
		raceDisable()
		s.mu.Lock()
		fires++
		key := "timer" + itoa6(id) + "." + itoa6(fires)
		g := &G{Key: key, Site: site, kh: fnv64(key), wake: make(chan struct{}), state: stRunnable, why: "timerfire", Lib: true}
		if s.cfg.Policy == PolPCT {
			g.prio = 1000 + int(splitmix(uint64(id)*7919+uint64(fires))%1000)
		}
		s.gs[key] = g
		s.order = append(s.order, g)
		s.mu.Unlock()
		raceEnable()
		s.body(g, f)
	})
}

func itoa6(n int) string {
	b := [6]byte{'0', '0', '0', '0', '0', '0'}
	for i := 5; i >= 0 && n > 0; i-- {
		b[i] = byte('0' + n%10)
		n /= 10
	}
	return string(b[:])
}

// Ordered is the constraint of SortedKeys.
type Ordered interface {
	~int | ~int8 | ~int16 | ~int32 | ~int64 | ~uint | ~uint8 | ~uint16 | ~uint32 | ~uint64 | ~uintptr | ~string
}

// SortedKeys returns the keys of m in increasing order (replaces the hash
// iteration order of range-over-map).
func SortedKeys[K Ordered, V any](m map[K]V) []K {
	ks := make([]K, 0, len(m))
	for k := range m {
		ks = append(ks, k)
	}
	sort.Slice(ks, func(i, j int) bool { return ks[i] < ks[j] })
	return ks
}

// RangeKeys is what a range-over-map in LIBRARY code iterates: the sorted keys,
// permuted by decisions of the run (Go's iteration order is unspecified, and
// code whose result depends on it must be explored under several orders). All
// decisions zero = sorted order. Small maps get a full permutation, large ones a
// rotation and an optional reversal.
func RangeKeys[K Ordered, V any](m map[K]V) []K {
	ks := SortedKeys(m)
	n := len(ks)
	if n < 2 || cur == nil {
		return ks
	}
	if n <= 6 {
		for i := 0; i < n-1; i++ {
			j := i + Draw(StrLib, n-i)
			ks[i], ks[j] = ks[j], ks[i]
		}
		return ks
	}
	r := Draw(StrLib, n)
	rev := Draw(StrLib, 2) == 1
	out := make([]K, 0, n)
	for i := 0; i < n; i++ {
		out = append(out, ks[(r+i)%n])
	}
	if rev {
		for i, j := 0, n-1; i < j; i, j = i+1, j-1 {
			out[i], out[j] = out[j], out[i]
		}
	}
	return out
}

// WaitQueue is the harness's blocking primitive: code between scheduling
// points is atomic (one goroutine runs at a time), so no lock is needed.
// Wait may return spuriously; callers loop on their condition.
type WaitQueue struct {
	waiters []*G
}

// Wait blocks the calling managed goroutine until WakeAll.
func (q *WaitQueue) Wait(why string) {
	s, g := meOrNil()
	if g == nil {
		panic("simrt: WaitQueue.Wait from unmanaged goroutine")
	}
	q.waiters = append(q.waiters, g)
	s.block(g, why)
}

// WakeAll makes every waiter runnable.
func (q *WaitQueue) WakeAll() {
	s := cur
	ws := q.waiters
	q.waiters = nil
	for _, w := range ws {
		s.makeRunnable(w)
	}
}

// Sleep blocks the calling managed goroutine for d of simulated time.
func Sleep(d time.Duration) {
	if d <= 0 {
		Yield("h/sleep")
		return
	}
	time.Sleep(d)
	Resume()
}

// HBRelease / HBAcquire let harness code that hands library memory from one
// goroutine to another (a reusing frame pool) announce the happens-before edge
// a real implementation would create with its own synchronisation.
func HBRelease(p *uint64) { raceReleaseMerge(unsafe.Pointer(p)) }
func HBAcquire(p *uint64) { raceAcquire(unsafe.Pointer(p)) }
