package vsim

import (
	"context"
	"fmt"
	"time"

	tchannel "github.com/uber/tchannel-go"
	"github.com/uber/tchannel-go/simrt"
	"vsim/wire"
)

func init() { families["timeline"] = famTimeline }

// famTimeline: everything here is driven by the (fake) clock. Idle sweeps: a
// drawn timeline of calls, long calls and pings over several connections is
// judged against a reference model fed by the tap. Health checks: a raw peer
// answers or ignores pings according to a drawn script. Serves C19.
func famTimeline(w *World) {
	w.Grid = 10 * time.Millisecond
	w.NoFault = true
	w.PeriodicTraffic = true // health-check pings never cease
	w.drawSchedule(false)
	if scnChance(1, 2) {
		w.timelineIdle()
	} else {
		w.timelineHealth()
	}
}

func isCallish(t byte) bool {
	switch t {
	case wire.TCallReq, wire.TCallReqCont, wire.TCallRes, wire.TCallResCont, wire.TError:
		return true
	}
	return false
}

func (w *World) timelineIdle() {
	g := w.Grid
	interval := time.Duration(2+scn(8)) * g
	maxIdle := time.Duration(1+scn(20)) * g
	// zero latency: all frames of a quick call share one instant, half a grid off the ticks
	// In a third of the runs the sweeping node is a RELAY: what keeps its connections from
	// being idle is then relayed calls in flight (on both the caller's and the callee's link).
	asRelay := scnChance(1, 3)
	xo := NodeOpts{Name: "x0", Service: "x", Host: "10.0.3.1", Port: 3000, Conn: w.connOptsBig(), MaxIdle: maxIdle, IdleInterval: interval}
	var spy *SpyRelayHost
	if asRelay {
		spy = &SpyRelayHost{w: w, name: "x0"}
		xo.Relay = spy
	}
	x := w.addNode(xo)
	if !asRelay {
		x.Ch.Register(&echoHandler{w: w, n: x}, "echo")
	}
	t0 := time.Now() // the sweep ticker started inside NewChannel
	ns := 1 + scn(4)
	var servers []*Node
	for i := 0; i < ns; i++ {
		svcName := "svc"
		if asRelay {
			svcName = fmt.Sprintf("svc%d", i) // one service per callee: the route decides the link
		}
		s := w.addNode(NodeOpts{Name: fmt.Sprintf("s%d", i), Service: svcName, Host: fmt.Sprintf("10.0.2.%d", i+1), Port: 5000 + i, Conn: w.connOptsBig()})
		s.Ch.Register(&echoHandler{w: w, n: s}, "echo")
		servers = append(servers, s)
		if asRelay {
			spy.Add(svcName, s.HostPort)
		}
	}
	var callers []*Node
	if asRelay {
		for i := 0; i < 1+scn(2); i++ {
			callers = append(callers, w.addNode(NodeOpts{Name: fmt.Sprintf("c%d", i), Service: fmt.Sprintf("client%d", i), Host: fmt.Sprintf("10.0.4.%d", i+1), Conn: w.connOptsBig()}))
		}
	}
	w.describe("idle sweep interval=%v maxIdle=%v servers=%d relay=%v", interval, maxIdle, ns, asRelay)
	horizon := time.Duration(40+scn(60)) * g
	type ev struct {
		at   time.Duration
		kind int // 0 quick call, 1 long call, 2 ping, 3 inbound connection (server connects to x, no calls), 4 inbound call
		srv  *Node
		dur  time.Duration
	}
	var evs []ev
	n := 2 + scn(10)
	for i := 0; i < n; i++ {
		e := ev{at: time.Duration(scn(int(horizon/g)))*g + g/2, kind: scnPick(0, 0, 0, 1, 2, 2, 3, 4), srv: servers[scn(ns)]}
		if asRelay {
			e.kind = scnPick(0, 0, 1, 1, 2) // relayed quick call, relayed long call, ping from the relay
		}
		if e.kind == 1 || (e.kind == 4 && scnChance(2, 3)) {
			// long calls: the request and the response are activity at two different instants
			// (for an inbound call the READ comes first and the WRITE later)
			e.dur = time.Duration(2+scn(30)) * g
		}
		evs = append(evs, e)
		w.describe("t=%v kind=%d server=%s dur=%v", e.at, e.kind, e.srv.Name, e.dur)
	}
	var fs []func()
	var recs []*CallRec
	for _, e := range evs {
		e := e
		fs = append(fs, func() {
			sleep(e.at - time.Since(t0))
			switch e.kind {
			case 0, 1:
				if asRelay {
					from := callers[scn(len(callers))]
					r := w.newCall(CallSpec{From: from, To: x.HostPort, Service: "svc" + e.srv.Name[1:], Via: "relay x1", Timeout: 30 * time.Second, Delay: e.dur, Len3: scn(500), Rs2: -1, Rs3: -1})
					recs = append(recs, r)
					w.Call(r)
					w.probe("C19.relayed-call")
					break
				}
				r := w.newCall(CallSpec{From: x, To: e.srv.HostPort, Service: "svc", Via: "direct", Timeout: 30 * time.Second, Delay: e.dur, Len3: scn(500), Rs2: -1, Rs3: -1})
				recs = append(recs, r)
				w.Call(r)
			case 2:
				ctx, cancel := context.WithTimeout(context.Background(), time.Second)
				x.Ch.Ping(ctx, e.srv.HostPort)
				cancel()
				w.probe("C19.ping-sent")
			case 3:
				ctx, cancel := context.WithTimeout(context.Background(), time.Second)
				e.srv.Ch.Connect(ctx, x.HostPort)
				cancel()
			case 4:
				r := w.newCall(CallSpec{From: e.srv, To: x.HostPort, Service: "x", Via: "direct", Timeout: 30 * time.Second, Delay: e.dur, Len3: scn(500), Rs2: -1, Rs3: -1})
				recs = append(recs, r)
				w.Call(r)
			}
			w.probe("ops.done")
		})
	}
	w.tasks(fs...)
	sleep(horizon + maxIdle + 3*interval - time.Since(t0))
	end := time.Since(t0)

	// ---- reference model, fed by the tap ----
	for _, l := range w.Net.Links {
		side := -1
		if l.A.Owner == x.Name {
			side = 0
		} else if l.B.Owner == x.Name {
			side = 1
		}
		if side < 0 {
			continue
		}
		outDir, inDir := 0, 1
		if side == 1 {
			outDir, inDir = 1, 0
		}
		// activity instants on this connection as x sees them
		var act []time.Duration
		created := time.Duration(-1)
		for _, tf := range l.Frames[outDir] {
			if tf.Err != nil {
				continue
			}
			if (tf.F.Type == wire.TInitReq || tf.F.Type == wire.TInitRes) && created < 0 {
				created = tf.WAt
			}
			if isCallish(tf.F.Type) {
				act = append(act, tf.WAt)
			}
		}
		for _, tf := range l.Frames[inDir] {
			if tf.Err != nil || tf.REv == 0 {
				continue
			}
			if (tf.F.Type == wire.TInitReq || tf.F.Type == wire.TInitRes) && (created < 0 || tf.RAt > created) {
				created = tf.RAt // the connection object exists once the handshake completed
			}
			if isCallish(tf.F.Type) {
				act = append(act, tf.RAt)
			}
		}
		if created < 0 {
			continue
		}
		peer := l.B.Owner
		if side == 1 {
			peer = l.A.Owner
		}
		// pending intervals: the calls whose request travelled on THIS connection
		onLink := map[string]bool{}
		for d := 0; d < 2; d++ {
			for _, tf := range l.Frames[d] {
				if tf.Err == nil && tf.F.Type == wire.TCallReq {
					onLink[tagOfFrame(tf.F)] = true
				}
			}
		}
		pendingAt := func(t time.Duration) bool {
			for _, r := range recs {
				if onLink[r.Spec.Tag] && r.TIn <= t && (!r.Done || r.EndAt >= t) {
					return true
				}
			}
			return false
		}
		closedAt := time.Duration(-1)
		if l.CloseEv[side] != 0 {
			closedAt = l.CloseAt[side]
		}
		otherClosed := time.Duration(-1)
		if l.CloseEv[1-side] != 0 && (l.CloseEv[side] == 0 || l.CloseEv[1-side] < l.CloseEv[side]) {
			otherClosed = l.CloseAt[1-side] // only if the OTHER side ended the connection first (event order, not time)
		}
		expect := time.Duration(-1)
		for k := 1; ; k++ {
			tick := time.Duration(k) * interval
			if tick+g > end {
				// sweeps at the very end of the observation window are not judged,
				// and neither is what they close
				if closedAt >= tick {
					closedAt = -1
				}
				break
			}
			if tick < created {
				continue
			}
			if otherClosed >= 0 && otherClosed <= tick {
				break
			}
			last := created
			for _, a := range act {
				if a <= tick && a > last {
					last = a
				}
			}
			idle := tick - last
			w.eval("C19.sweep-decision")
			if idle >= maxIdle && !pendingAt(tick) {
				expect = tick
				break
			}
			if idle >= maxIdle && pendingAt(tick) {
				w.probe("C19.idle-but-pending")
			}
		}
		desc := fmt.Sprintf("link%d x0<->%s (created %v, call/error activity at %v)", l.ID, peer, created, act)
		switch {
		case expect >= 0 && closedAt < 0 && (otherClosed < 0 || otherClosed > expect+interval):
			w.violate("C19", "idle-connection-not-closed", "%s: idle >= %v with nothing pending at the sweep of t=%v, but x0 never closed it", desc, maxIdle, expect)
		case expect >= 0 && closedAt >= 0 && otherClosed < 0 && (closedAt < expect || closedAt >= expect+interval):
			w.violate("C19", "closed-at-wrong-sweep", "%s: the model closes it at the sweep of t=%v (interval %v, maxIdle %v), x0 closed it at %v", desc, expect, interval, maxIdle, closedAt)
		case expect < 0 && closedAt >= 0 && otherClosed < 0:
			w.violate("C19", "non-idle-connection-closed", "%s: never idle for %v at a sweep without pending calls, yet x0 closed it at %v", desc, maxIdle, closedAt)
		}
	}
	w.quiesce(2*time.Second, true)
}

// timelineHealthCongested: health checks on a connection whose peer has stopped reading
// and whose (one-frame) send buffer is full of the caller's requests: a ping cannot even be
// queued. Whatever the library makes of that - a failed ping, a broken connection - the
// connection must not stay up for ever, and nothing may be left hanging once the channel
// is closed.
func (w *World) timelineHealthCongested() {
	g := w.Grid
	interval := time.Duration(5+scn(10)) * g
	timeout := time.Duration(1+scn(4)) * g
	failures := 1 + scn(3)
	co := w.connOptsBig()
	co.SendBufferSize = 1 + scn(2)
	co.HealthChecks = tchannel.HealthCheckOptions{Interval: interval, Timeout: timeout, FailuresToClose: failures}
	w.linkHook = func(l *Link) {
		l.SetCapacity(0, 4<<10)
		l.SetCapacity(1, 4<<10)
	}
	x := w.addNode(NodeOpts{Name: "x0", Service: "x", Host: "10.0.3.1", Conn: co})
	w.describe("health congested interval=%v timeout=%v failuresToClose=%d sendBuffer=%d", interval, timeout, failures, co.SendBufferSize)
	rs := w.newRawPeer("rawsrv", "10.0.8.1")
	hp := rs.Listen(6000, func(c *RawConn) {
		if c.ServerHandshake("10.0.8.1:6000") != nil {
			return
		}
		w.Net.Fired["peer.silent"]++
		sleep(time.Hour) // never reads again
	})
	ctx, cancel := context.WithTimeout(context.Background(), time.Second)
	_, err := x.Ch.Connect(ctx, hp)
	cancel()
	if err != nil {
		w.violate("C19", "connect", "connect to a conforming raw server failed: %v", err)
		return
	}
	// requests nobody reads fill the socket and the send buffer
	var fs []func()
	for i := 0; i < 3+scn(3); i++ {
		r := w.newCall(CallSpec{From: x, To: hp, Service: "x", Via: "to-raw-server", Timeout: time.Duration(20+scn(60)) * g, Len3: 20000 + scn(100000), Rs2: -1, Rs3: -1, NoCheck: true})
		fs = append(fs, func() { w.Call(r) })
	}
	w.tasks(fs...) // (every call has run into its deadline by now: a graceful close has nothing left to wait for)
	w.probe("ops.done")
	sleep(time.Duration(failures+4) * interval)
	w.eval("C19.health-decision")
	closed := false
	for _, l := range w.Net.Links {
		if l.A.Owner == x.Name && l.CloseEv[0] != 0 {
			closed = true
		}
	}
	// (with a peer that reads nothing the writer goroutine can sit in a socket write for
	// ever - no write deadline - and it is the writer that closes the socket: what is judged
	// is the library's own view, the connection gone from the channel's books)
	st := x.Ch.IntrospectState(&tchannel.IntrospectionOptions{IncludeEmptyPeers: true})
	if !closed && st.NumConnections != 0 {
		w.violate("C19", "unhealthy-connection-kept", "interval=%v timeout=%v failuresToClose=%d: the peer reads nothing, the send buffer (%d) is full, every call has timed out and %d more health-check intervals have passed: the channel still tracks %d connection(s)", interval, timeout, failures, co.SendBufferSize, failures+4, st.NumConnections)
	}
	w.quiesce(2*time.Second, true)
}

func (w *World) timelineHealth() {
	if scnChance(1, 4) {
		w.timelineHealthCongested()
		return
	}
	g := w.Grid
	interval := time.Duration(2+scn(10)) * g
	timeout := time.Duration(1+scn(8)) * g
	if timeout >= interval {
		timeout = interval - g/2
	}
	failures := scn(6) // 0 = library default (5)
	effFail := failures
	if effFail == 0 {
		effFail = 5
	}
	co := w.connOptsBig()
	co.HealthChecks = tchannel.HealthCheckOptions{Interval: interval, Timeout: timeout, FailuresToClose: failures}
	x := w.addNode(NodeOpts{Name: "x0", Service: "x", Host: "10.0.3.1", Conn: co})
	// script: which pings get an answer
	n := 4 + scn(20)
	script := make([]bool, n)
	// how a ping fails: 0 = never answered, 1 = answered after the timeout (the late pong then
	// finds no exchange), 2 = answered with an error frame
	failHow := make([]int, n)
	for i := range script {
		script[i] = scnChance(1, 2)
		if scnChance(1, 5) { // runs of failures
			for j := i; j < n && j < i+effFail; j++ {
				script[j] = false
			}
		}
	}
	for i := range failHow {
		failHow[i] = scnPick(0, 0, 1, 2)
	}
	late := timeout + (interval-timeout)/2
	errCode := []byte{wire.ErrBusy, wire.ErrUnexpected, 0x06, 0x07}[scn(4)]
	w.describe("health interval=%v timeout=%v failuresToClose=%d script=%v failHow=%v (late pong after %v, error code %#x)", interval, timeout, failures, script, failHow, late, errCode)
	rs := w.newRawPeer("rawsrv", "10.0.8.1")
	pings := 0
	sockEnded := false
	hp := rs.Listen(6000, func(c *RawConn) {
		if c.ServerHandshake("10.0.8.1:6000") != nil {
			return
		}
		for {
			f, err := c.ReadFrame(time.Hour)
			if err != nil {
				sockEnded = true
				return
			}
			if f.Type == wire.TPingReq {
				k := pings
				pings++
				if k < len(script) && script[k] {
					c.Send(wire.EncPing(wire.TPingRes, f.ID))
				} else if k >= len(script) {
					c.Send(wire.EncPing(wire.TPingRes, f.ID)) // after the script: healthy
				} else {
					switch failHow[k] {
					case 1:
						id := f.ID
						w.Net.Fired["peer.late"]++
						simrt.Go("h/late-pong", func() {
							sleep(late)
							c.Send(wire.EncPing(wire.TPingRes, id))
						})
					case 2:
						w.Net.Fired["peer.error-for-ping"]++
						c.Send(wire.EncError(f.ID, errCode, wire.Span{}, "no pong for you"))
					default:
						w.Net.Fired["peer.silent"]++
					}
				}
			}
		}
	})
	ctx, cancel := context.WithTimeout(context.Background(), time.Second)
	_, err := x.Ch.Connect(ctx, hp)
	cancel()
	if err != nil {
		w.violate("C19", "connect", "connect to a conforming raw server failed: %v", err)
		return
	}
	// expected: close right after the first run of effFail consecutive failures
	expectPings := -1
	run := 0
	for i, ok := range script {
		if ok {
			run = 0
		} else {
			run++
		}
		if run == effFail {
			expectPings = i + 1
			break
		}
	}
	sleep(time.Duration(n+3) * interval)
	w.probe("ops.done")
	w.eval("C19.health-decision")
	closed := false
	for _, l := range w.Net.Links {
		if l.A.Owner == x.Name && l.CloseEv[0] != 0 {
			closed = true
		}
	}
	desc := fmt.Sprintf("interval=%v timeout=%v failuresToClose=%d (effective %d) script=%v", interval, timeout, failures, effFail, script)
	switch {
	case expectPings >= 0 && !closed:
		w.violate("C19", "unhealthy-connection-kept", "%s: %d consecutive pings went unanswered (ending with ping #%d) and the connection is still open after %d pings", desc, effFail, expectPings, pings)
	case expectPings >= 0 && pings != expectPings:
		w.violate("C19", "closed-after-wrong-failure-count", "%s: the connection must close right after ping #%d failed; the peer saw %d pings before it closed", desc, expectPings, pings)
	case expectPings < 0 && closed:
		w.violate("C19", "healthy-connection-closed", "%s: never %d consecutive failures, yet the connection was closed after %d pings", desc, effFail, pings)
	}
	_ = sockEnded
	w.quiesce(2*time.Second, true)
}
