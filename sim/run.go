package vsim

import (
	"fmt"
	"sort"
	"strings"
	"time"

	tchannel "github.com/uber/tchannel-go"
	"github.com/uber/tchannel-go/simrt"
)

// RunSpec describes one run. Everything else derives from Seed (or Replay).
type RunSpec struct {
	Family      string              `json:"family"`
	Prop        string              `json:"prop"` // the property the check is about (biases hot files only)
	Seed        uint64              `json:"seed"`
	Replay      map[string][]uint32 `json:"replay,omitempty"`
	NoPoison    bool                `json:"nopoison,omitempty"`
	Trace       bool                `json:"trace,omitempty"`
	Record      bool                `json:"record,omitempty"` // include decision vectors in the result even without a violation
	WatchdogSec int                 `json:"watchdog_sec,omitempty"`
	Case        int                 `json:"case"` // enumeration index for fault_enumeration families (-1 = drawn)
	Params      map[string]int      `json:"params,omitempty"`
}

// RunResult is what one run reports.
type RunResult struct {
	Family     string              `json:"family"`
	Seed       uint64              `json:"seed"`
	Case       int                 `json:"case"`
	Class      string              `json:"class"` // faultfree / faulty
	Violations []Violation         `json:"violations"`
	Panics     []simrt.PanicInfo   `json:"panics,omitempty"`
	Aborted    string              `json:"aborted,omitempty"`
	Deadlock   bool                `json:"deadlock,omitempty"`
	MainDone   bool                `json:"main_done"`
	Leftover   []simrt.Left        `json:"leftover,omitempty"`
	Steps      int                 `json:"steps"`
	Switches   int                 `json:"switches"`
	Preempts   int                 `json:"preempts"`
	Stalls     int                 `json:"stalls"`
	SimNs      int64               `json:"sim_ns"`
	FP         string              `json:"fp"`
	SitePairs  []uint64            `json:"site_pairs,omitempty"`
	Goroutines int                 `json:"goroutines"`
	Fired      map[string]int      `json:"fired"`
	Probes     map[string]int      `json:"probes"`
	Evals      map[string]int      `json:"evals"`
	Sample     []string            `json:"sample"`
	OpsDone    int                 `json:"ops_done"`
	Diverged   int                 `json:"diverged"`
	Records    map[string][]uint32 `json:"records,omitempty"`
	Trace      []string            `json:"trace,omitempty"`
	HistTail   []string            `json:"hist_tail,omitempty"`
	EventHash  string              `json:"event_hash"`
}

type family func(w *World)

var families = map[string]family{}

func runOne(spec RunSpec) *RunResult {
	tt := 400
	if spec.Trace {
		tt = 0
	}
	s := simrt.New(simrt.Config{Seed: spec.Seed, Replay: spec.Replay, Trace: spec.Trace, TraceTail: tt,
		MaxSteps: 3_000_000, MaxSim: 6 * time.Hour, IdleQuit: 30 * time.Minute, Grid: time.Millisecond})
	w := newWorld(spec)
	w.NoPoison = spec.NoPoison
	fam := families[spec.Family]
	if fam == nil {
		panic("harness: unknown family " + spec.Family)
	}
	tchannel.VerifReseed(simrt.LibSeed(), simrt.LibSeed())
	out := s.Run(func() {
		w.Family = spec.Family
		fam(w)
	})
	for i, n := range flushProbe {
		if n > 0 {
			w.Probes[fmt.Sprintf("write.explicit-flush(%d more back to back)", i)] += n
		}
	}
	res := &RunResult{Family: spec.Family, Seed: spec.Seed, Case: spec.Case, Violations: w.Viol, Panics: s.Panics, MainDone: out.MainDone, Deadlock: out.Deadlock,
		Steps: s.Steps, Switches: s.Switches, Preempts: s.Preempts, Stalls: s.Stalls, SimNs: int64(out.SimTime), FP: fmt.Sprintf("%016x", s.FP),
		Goroutines: s.NumGoroutines(), Fired: w.Net.Fired, Probes: w.Probes, Evals: w.Evals, Sample: w.Sample, Diverged: s.Diverged()}
	if out.Aborted {
		res.Aborted = out.AbortWhy
	}
	if w.NoFault {
		res.Class = "faultfree"
	} else {
		res.Class = "faulty"
	}
	if s.Lags > 0 {
		res.Fired["sched.lag"] = s.Lags
	}
	if s.Stalls > 0 {
		res.Fired["sched.stall"] = s.Stalls
	}
	if s.Preempts > 0 {
		res.Fired["sched.preempt"] = s.Preempts
	}
	for k := range s.SitePairs {
		res.SitePairs = append(res.SitePairs, k)
	}
	sort.Slice(res.SitePairs, func(i, j int) bool { return res.SitePairs[i] < res.SitePairs[j] })
	for _, c := range w.Calls {
		if c.Done {
			res.OpsDone++
		}
	}
	res.OpsDone += w.Probes["ops.done"]
	// C12: nobody wrote into a frame after handing it back to the pool
	if !out.Aborted {
		for _, n := range w.Nodes {
			if n.Pool == nil {
				continue
			}
			w.eval("C12.poison-intact")
			for _, d := range n.Pool.WrittenAfterRelease() {
				res.Violations = append(res.Violations, Violation{Prop: "C12", Rule: "write-after-release", Detail: d})
			}
		}
	}
	// C11 (second half): after every channel is closed no goroutine started by
	// the library remains. Evaluated only when the scenario closed everything
	// and the run was not aborted.
	if w.AllClosed && !out.Aborted && out.MainDone {
		w.eval("C11.goroutines")
		for _, l := range out.Leftover {
			if l.Lib {
				res.Violations = append(res.Violations, Violation{Prop: "C11", Rule: "goroutine-leak",
					Detail: fmt.Sprintf("library goroutine started at %s still alive after every channel was closed and %v of idle simulated time: %s waiting at %s", l.Site, 30*time.Minute, l.State, l.Why)})
			}
		}
	} else {
		res.Leftover = out.Leftover
	}
	if out.Deadlock {
		var sb strings.Builder
		for _, l := range out.Leftover {
			fmt.Fprintf(&sb, "\n    %s [%s] %s", l.Key, l.State, l.Why)
		}
		res.Violations = append(res.Violations, Violation{Prop: "C03", Rule: "deadlock", Detail: "workload did not finish: nothing runnable and no timer pending" + sb.String()})
		// a call that was begun and never handed control back (C05), whatever else is stuck
		for _, c := range w.Calls {
			if c.BeginEv != 0 && !c.Done {
				res.Violations = append(res.Violations, Violation{Prop: "C05", Rule: "call-never-returned",
					Detail: fmt.Sprintf("call %s (%s, timeout %v) never returned: the run ended with nothing runnable and no timer pending%s", c.Spec.Tag, c.Spec.Via, c.Spec.Timeout, sb.String())})
				break
			}
		}
		// and no property can hold in a wedged process: whichever one this run was exploring
		if spec.Prop != "" && spec.Prop != "C03" && spec.Prop != "C05" {
			res.Violations = append(res.Violations, Violation{Prop: spec.Prop, Rule: "library-deadlock",
				Detail: "the run wedged (nothing runnable, no timer pending) while exploring the workload of " + spec.Prop + sb.String()})
		}
	}
	h := uint64(1469598103934665603)
	for _, e := range w.Hist {
		h = (h ^ fnv(e.Kind+e.Text) ^ uint64(e.At)) * 1099511628211
	}
	res.EventHash = fmt.Sprintf("%016x", h^s.FP)
	bad := len(res.Violations) > 0 || len(res.Panics) > 0 || out.Aborted || out.Deadlock
	if bad || spec.Record {
		res.Records = s.Records()
	}
	if bad || spec.Trace {
		res.Trace = s.TraceLines()
		n := len(w.Hist)
		from := 0
		if n > 300 && !spec.Trace {
			from = n - 300
		}
		for _, e := range w.Hist[from:] {
			res.HistTail = append(res.HistTail, fmt.Sprintf("#%d t=%v %s %s", e.Ev, e.At, e.Kind, e.Text))
		}
	}
	return res
}

// ---- common scenario pieces ----

var propHotFiles = map[string][]string{
	"C04": {"mex.go", "connection.go", "inbound.go", "outbound.go"},
	"C05": {"mex.go", "reqres.go", "peer.go", "connection.go"},
	"C07": {"inbound.go", "outbound.go", "relay.go", "connection.go", "channel.go"},
	"C09": {"relay.go", "relay_timer_pool.go"},
	"C10": {"relay.go", "inbound.go", "reqres.go"},
	"C11": {"mex.go", "relay.go", "connection.go"},
	"C12": {"relay.go", "inbound.go", "reqres.go", "fragmenting_reader.go"},
	"C14": {"inbound.go", "outbound.go", "relay.go"},
	"C16": {"channel.go", "peer.go", "root_peer_list.go"},
	"C19": {"idle_sweep.go", "health.go", "connection.go"},
	"C20": {"mex.go", "outbound.go", "connection.go"},
}

// drawSchedule picks the scheduling policy of this run (swarm style).
func (w *World) drawSchedule(allowStall bool) {
	s := simrt.Cur()
	pol := scn(10)
	sw := []int{20, 50, 100, 200, 350, 500}[scn(6)]
	hot := 0
	var hotFiles []string
	if hf := propHotFiles[w.cfg.Prop]; len(hf) > 0 && scnChance(1, 2) {
		// a random subset of the files the property is anchored in preempts eagerly
		for _, f := range hf {
			if scnChance(1, 2) {
				hotFiles = append(hotFiles, f)
			}
		}
		hot = []int{300, 500, 800}[scn(3)]
		if scnChance(1, 2) {
			sw = []int{5, 20, 50}[scn(3)]
		}
	}
	stall := 0
	if allowStall && scnChance(1, 2) {
		stall = []int{5, 20, 60}[scn(3)]
	}
	lag := 0
	if allowStall && scnChance(1, 3) {
		lag = []int{5, 20, 60}[scn(3)]
	}
	lagWake := 0
	if allowStall && scnChance(1, 3) {
		lagWake = []int{50, 150, 400}[scn(3)]
	}
	depth := 1 + scn(4)
	s.Configure(func(c *simrt.Config) {
		switch {
		case pol == 0:
			c.Policy = simrt.PolStraight
		case pol <= 3:
			c.Policy = simrt.PolPCT
			c.PCTDepth = depth
			c.PCTSpan = 4000
		default:
			c.Policy = simrt.PolRandom
		}
		if c.Policy == simrt.PolPCT {
			stall /= 10 // PCT takes a scheduler decision at every step: keep simulated time from running away
			lag /= 10
		}
		c.LagPM = lag
		c.LagWakePM = lagWake
		c.SwitchPM = sw
		c.HotFiles = hotFiles
		c.HotPM = hot
		c.StallPM = stall
		c.Grid = w.Grid
	})
	w.describe("sched policy=%d switch=%d‰ hot=%v@%d‰ stall=%d‰ lag=%d‰ late-wake=%d‰", s.Cfg().Policy, sw, hotFiles, hot, stall, lag, lagWake)
}

// tasks runs fs as concurrent harness tasks and waits for all of them.
func (w *World) tasks(fs ...func()) {
	done := 0
	var q simrt.WaitQueue
	var join uint64 // race builds: the application joins its goroutines (as with a WaitGroup)
	for i, f := range fs {
		f := f
		simrt.Go(fmt.Sprintf("h/task:%d", i), func() {
			defer func() { simrt.HBRelease(&join); done++; q.WakeAll() }()
			f()
		})
	}
	for done < len(fs) {
		q.Wait("tasks")
	}
	simrt.HBAcquire(&join)
}

// sleep advances simulated time for the calling task.
func sleep(d time.Duration) { simrt.Sleep(d) }

// stopLags: the slow-goroutine fault stops with the other faults when quiescence
// begins; goroutines still being held back are waited for.
func (w *World) stopLags() {
	if d := simrt.Cur().StopLags(); d > 0 {
		sleep(d)
	}
}

// quiesce stops faults, lets every deadline pass and evaluates the end-state
// oracles; then closes every channel and waits for them to report closed.
// settle sleeps d, counted from the moment traffic ceased: data queued inside the
// library or the sockets before the faults stopped may still be trickling through a
// slow link, and the calls it carries are not over yet. Bounded, for periodic traffic.
func (w *World) settle(d time.Duration) {
	sleep(d)
	if w.PeriodicTraffic {
		return
	}
	for waited := time.Duration(0); waited < 2*time.Minute; {
		since := time.Since(w.Net.LastData)
		if w.Net.LastData.IsZero() || since >= d {
			break
		}
		w.Net.Fired["quiesce.extended"]++
		sleep(d - since)
		waited += d - since
	}
}

func (w *World) quiesce(settle time.Duration, closeAll bool) {
	w.QuiesceStarted = true
	w.stopLags()
	for _, l := range w.Net.Links {
		l.Heal()
	}
	w.settle(settle)
	w.event("quiesce", "after %v", settle)
	w.checkQuiescent()
	w.checkPools(w.NoFault)
	if !closeAll {
		return
	}
	for _, n := range w.Nodes {
		if !n.Dead {
			n.Close()
		}
	}
	for _, rp := range w.RawPeers {
		rp.CloseAll()
	}
	deadline := 5 * time.Minute
	step := 50 * time.Millisecond
	for waited := time.Duration(0); waited < deadline; waited += step {
		all := true
		for _, n := range w.Nodes {
			if n.Dead {
				continue
			}
			if n.sampleState() != tchannel.ChannelClosed {
				all = false
			}
		}
		if all {
			break
		}
		sleep(step)
		if step < 10*time.Second {
			step *= 2
		}
	}
	all := true
	for _, n := range w.Nodes {
		if n.Dead {
			continue
		}
		w.eval("C07.reaches-closed")
		if st := n.sampleState(); st != tchannel.ChannelClosed {
			all = false
			w.violate("C07", "never-closed", "channel %s is still %v %v after Close although nothing is in flight (connections: %s)", n.Name, st, deadline, n.connSummary())
		} else {
			// the state is published before the signal: give the signal (generous) simulated time
			t := time.NewTimer(10 * time.Second)
			select {
			case <-n.Ch.ClosedChan():
				t.Stop()
			case <-t.C:
				w.violate("C07", "closed-not-signalled", "channel %s reports closed but ClosedChan is still not signalled 10s later", n.Name)
			}
		}
	}
	w.AllClosed = all
}

func (n *Node) connSummary() string {
	st := n.Ch.IntrospectState(&tchannel.IntrospectionOptions{IncludeExchanges: true})
	var sb strings.Builder
	var all []tchannel.ConnectionRuntimeState
	all = append(all, st.InactiveConnections...)
	for _, hp := range sortedKeys(st.RootPeers) {
		all = append(all, st.RootPeers[hp].InboundConnections...)
		all = append(all, st.RootPeers[hp].OutboundConnections...)
	}
	for _, c := range all {
		fmt.Fprintf(&sb, "[conn %d %s->%s %s in=%d out=%d relay=%d] ", c.ID, c.LocalHostPort, c.RemoteHostPort, c.ConnectionState, c.InboundExchange.Count, c.OutboundExchange.Count, c.Relayer.Count)
	}
	return sb.String()
}
